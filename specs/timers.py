"""C08 / C13 / C16: the retry-timer callbacks.  The reactor calls fn(arg) of a DelayedCall after setting it CALLED;
the ghost field self.g_firing names the request whose timer is being handled (reset at entry of the callback)."""
from pyvc.speclang import *
from specs.wire import *
from specs.state import *
from specs.inv import *
from specs.retry import *
from specs.acks import *


@spec
def firing(self: Ref['mqtt.client.pubsubs.MQTTProtocol'], r: Ref['obj']) -> bool:
    """precondition of a timer callback: everything is in order except that r's own timer has just fired"""
    return (inv(self) and alarms_set(self) and is_list_bytes(self.transport.tr_out) and self.g_firing == r
            and (is_none(self.onPublish) or is_func(self.onPublish))
            and isa(r.alarm, 'DelayedCall') and is_int(r.alarm.t_status) and r.alarm.t_status == 2)


@contract('mqtt.client.pubsubs.MQTTProtocol._publishError', props=['C08', 'C13', 'C16', 'C05'])
def _(self: Ref['mqtt.client.pubsubs.MQTTProtocol'], request: Ref['mqtt.pdu.PUBLISH']):
    requires(is_obj(self.addr))
    requires(firing(self, request))
    requires(is_int(request.msgId) and contains(W(self), request.msgId) and W(self)[request.msgId] == request)
    modifies(all_but(KEEP_REFILL0))
    ghost_set(self.g_firing, None)
    ensures(live(self))
    # the same bytes again, DUP set, and exactly one new timer for this request
    ensures(out(self) == old(out(self)) + lb(with_dup(old(as_bytes(request.encoded)), True)))
    ensures(timer_for(self, request, fn('mqtt.client.pubsubs.MQTTProtocol._publishError')))
    ensures(num(request.alarm.t_delay) >= request.interval.initial)
    ensures(request.retries == old(request.retries) + 1)


@contract('mqtt.client.pubsubs.MQTTProtocol._pubrelError', props=['C08', 'C13', 'C16', 'C09'])
def _(self: Ref['mqtt.client.pubsubs.MQTTProtocol'], reply: Ref['mqtt.pdu.PUBREL']):
    requires(is_obj(self.addr))
    requires(firing(self, reply))
    requires(is_int(reply.msgId) and contains(R(self), reply.msgId) and R(self)[reply.msgId] == reply)
    modifies(all_but(KEEP_REFILL0))
    ghost_set(self.g_firing, None)
    ensures(live(self))
    ensures(out(self) == old(out(self)) + lb(with_dup(old(as_bytes(reply.encoded)), self._version == v31)))
    ensures(timer_for(self, reply, fn('mqtt.client.pubsubs.MQTTProtocol._pubrelError')))
    ensures(num(reply.alarm.t_delay) >= reply.interval.initial)


@contract('mqtt.client.pubsubs.MQTTProtocol._subscribeError', props=['C08', 'C13', 'C16', 'C07'])
def _(self: Ref['mqtt.client.pubsubs.MQTTProtocol'], request: Ref['mqtt.pdu.SUBSCRIBE']):
    requires(is_obj(self.addr))
    requires(firing(self, request))
    requires(is_int(request.msgId) and contains(S(self), request.msgId) and S(self)[request.msgId] == request)
    modifies(all_but(KEEP_REFILL0))
    ghost_set(self.g_firing, None)
    ensures(live(self))
    ensures(out(self) == old(out(self)) + lb(with_dup(old(as_bytes(request.encoded)), self._version == v31)))
    ensures(timer_for(self, request, fn('mqtt.client.pubsubs.MQTTProtocol._subscribeError')))
    ensures(num(request.alarm.t_delay) >= request.interval.initial)


@contract('mqtt.client.pubsubs.MQTTProtocol._unsubscribeError', props=['C08', 'C13', 'C16', 'C07'])
def _(self: Ref['mqtt.client.pubsubs.MQTTProtocol'], request: Ref['mqtt.pdu.UNSUBSCRIBE']):
    requires(is_obj(self.addr))
    requires(firing(self, request))
    requires(is_int(request.msgId) and contains(U(self), request.msgId) and U(self)[request.msgId] == request)
    modifies(all_but(KEEP_REFILL0))
    ghost_set(self.g_firing, None)
    ensures(live(self))
    ensures(out(self) == old(out(self)) + lb(with_dup(old(as_bytes(request.encoded)), self._version == v31)))
    ensures(timer_for(self, request, fn('mqtt.client.pubsubs.MQTTProtocol._unsubscribeError')))
    ensures(num(request.alarm.t_delay) >= request.interval.initial)
