"""Shared vocabulary for the state-machine contracts: well-formedness (type facts) of a protocol object and of
the per-address containers it reaches through its factory.  These are preconditions (`is_valid()` predicates),
established by the constructor / buildProtocol contracts and preserved by every entry point."""
from pyvc.speclang import *

P = 'mqtt.client.base.MQTTBaseProtocol'
PS = 'mqtt.client.pubsubs.MQTTProtocol'
F = 'mqtt.client.factory.MQTTFactory'


@spec
def wf_base(self: Ref['mqtt.client.base.MQTTBaseProtocol']) -> bool:
    return (is_int(self._initialT) and 1 <= self._initialT and self._initialT <= 1024
            and is_int(self._window) and 1 <= self._window and self._window <= 16
            and is_bool(self._cleanStart) and is_ver(self._version)
            and isa(self.transport, 'Transport') and isa(self.factory, 'mqtt.client.factory.MQTTFactory')
            and isa(self._pingReq, 'mqtt.pdu.PINGREQ'))


@spec
def wf_containers(self: Ref['mqtt.client.pubsubs.MQTTProtocol']) -> bool:
    return (is_obj(self.addr) and is_int(self.factory.id) and 0 <= self.factory.id and self.factory.id <= 65535
            and isa(self.factory.queuePublishTx, 'dict') and contains(self.factory.queuePublishTx, self.addr)
            and isa(self.factory.queuePublishTx[self.addr], 'deque')
            and isa(self.factory.windowPublish, 'dict') and contains(self.factory.windowPublish, self.addr)
            and isa(self.factory.windowPublish[self.addr], 'dict')
            and isa(self.factory.windowPubRelease, 'dict') and contains(self.factory.windowPubRelease, self.addr)
            and isa(self.factory.windowPubRelease[self.addr], 'dict')
            and isa(self.factory.windowPubRx, 'dict') and contains(self.factory.windowPubRx, self.addr)
            and isa(self.factory.windowPubRx[self.addr], 'dict')
            and isa(self.factory.windowSubscribe, 'dict') and contains(self.factory.windowSubscribe, self.addr)
            and isa(self.factory.windowSubscribe[self.addr], 'dict')
            and isa(self.factory.windowUnsubscribe, 'dict') and contains(self.factory.windowUnsubscribe, self.addr)
            and isa(self.factory.windowUnsubscribe[self.addr], 'dict'))


@spec
def wf_proto(self: Ref['mqtt.client.pubsubs.MQTTProtocol']) -> bool:
    return (wf_base(self) and wf_containers(self) and is_num(self._bandwith) and num(self._bandwith) > 0
            and is_num(self._factor) and num(self._factor) > 0)


# C19: protocol code reaches the factory's per-address tables only through self.factory.<table>[self.addr]
ACCESS_POLICY = {'class': 'mqtt.client.base.MQTTBaseProtocol', 'key': 'addr', 'props': ['C19'], 'tag': 'g_addr',
                 'tagged': ['mqtt.pdu.PUBLISH', 'mqtt.pdu.PUBREL', 'mqtt.pdu.SUBSCRIBE', 'mqtt.pdu.UNSUBSCRIBE'],
                 'tables': ['queuePublishTx', 'windowPublish', 'windowPubRelease', 'windowPubRx', 'windowSubscribe',
                            'windowUnsubscribe']}


# entry-state heap well-formedness assumed by the VC generator for these fields: an object alive at the entry of a
# function refers through them only to objects alive at entry (timers cannot point at requests / protocols not yet built)
HEAP_WF_FIELDS = ['t_arg', 't_owner']


# every contract on a protocol method assumes the representation invariant; its base case belongs to every such property
INVARIANT_BASE = {'mqtt.client.': ['mqtt.client.factory.MQTTFactory.buildProtocol#main']}
