"""C16 / C14 / C03: from raw bytes to the handlers: PUBLISH.decode on arbitrary bytes, the _handleXXX decoders,
_processPacket (packet-type dispatch) and dataReceived.  No exception may escape; every path re-establishes the
state invariant any_state(self)."""
from pyvc.speclang import *
from specs.wire import *
from specs.state import *
from specs.inv import *
from specs.acks import *
from specs.connection import *
from specs.inbound import *
from specs.api_entry import *
from specs.session import *

KEEP_HANDLE = ['g_base', 'g_addr', '_buffer', 'g_dispatched', 'g_firing', 'id', 'IDLE', 'CONNECTING', 'CONNECTED', 'protocol', 'factory', 'addr', 'transport',
               '_pingReq', 'queuePublishTx', 'windowPublish', 'windowPubRelease', 'windowPubRx', 'windowSubscribe',
               'windowUnsubscribe', '_window', '_initialT', '_bandwith', '_factor', '_version', '_cleanStart',
               'onPublish', 'onDisconnection', 'onMqttConnectionMade', 'pdu', 'tr_closes']
KEEP_PROCESS = ['g_base', 'g_addr', '_buffer', 'g_firing', 'id', 'IDLE', 'CONNECTING', 'CONNECTED', 'protocol', 'factory', 'addr', 'transport',
                '_pingReq', 'queuePublishTx', 'windowPublish', 'windowPubRelease', 'windowPubRx', 'windowSubscribe',
                'windowUnsubscribe', '_window', '_initialT', '_bandwith', '_factor', '_version', '_cleanStart',
                'onPublish', 'onDisconnection', 'onMqttConnectionMade', 'pdu', 'tr_closes']

KEEP_RECV = ['g_base', 'g_addr', 'g_firing', 'id', 'IDLE', 'CONNECTING', 'CONNECTED', 'protocol', 'factory', 'addr', 'transport',
             '_pingReq', 'queuePublishTx', 'windowPublish', 'windowPubRelease', 'windowPubRx', 'windowSubscribe',
             'windowUnsubscribe', '_window', '_initialT', '_bandwith', '_factor', '_version', '_cleanStart',
             'onPublish', 'onDisconnection', 'onMqttConnectionMade', 'pdu', 'tr_closes']


@spec
def pub_wf(packet: Bytes) -> bool:
    """a decodable PUBLISH: the remaining-length field ends inside the packet, topic length and topic inside the body, topic valid UTF-8, and a
    packet identifier after it when the QoS bits are not 0"""
    return (whole(packet) and len(body(packet)) >= 2 and 2 + (body(packet)[0] * 256 + body(packet)[1]) <= len(body(packet))
            and valid_utf8(body(packet)[2:2 + (body(packet)[0] * 256 + body(packet)[1])])
            and implies((packet[0] // 2) % 4 > 0, (body(packet)[0] * 256 + body(packet)[1]) + 4 <= len(body(packet))))


@contract('mqtt.pdu.PUBLISH.decode', props=['C16', 'C06'])
def _(self: Ref['mqtt.pdu.PUBLISH'], packet: Bytes):
    """any complete packet: an exception exactly when it is not a decodable PUBLISH (truncated / invalid UTF-8),
    otherwise every field is the one the bytes carry"""
    requires(is_unset(self.deferred) and is_unset(self.alarm))
    raises(Exception, when=not pub_wf(packet))
    modifies(self.encoded, self.dup, self.qos, self.retain, self.topic, self.msgId, self.payload)
    B = body(packet)
    tl = B[0] * 256 + B[1]
    ensures(decoded_publish(self))
    ensures(self.encoded == packet)
    ensures(2 + len(utf8(self.topic)) + (2 if self.qos > 0 else 0) <= len(body(packet)))
    # every field is the one the bytes carry (faithful delivery, C06)
    ensures(self.qos == (packet[0] // 2) % 4 and self.dup == ((packet[0] // 8) % 2 == 1) and self.retain == (packet[0] % 2 == 1))
    ensures(len(B) >= 2 and tl + 2 <= len(B) and utf8(self.topic) == B[2:2 + tl] and self.topic == utf8dec(B[2:2 + tl]))
    ensures(implies(self.qos > 0, self.msgId == B[tl + 2] * 256 + B[tl + 3] and self.payload == B[tl + 4:]))
    ensures(implies(self.qos == 0, self.payload == B[tl + 2:]))


@contract('mqtt.client.base.MQTTBaseProtocol._handleCONNACK', props=['C16', 'C14', 'C04', 'C03'], classes=PROFILES)
def _(self: Ref['mqtt.client.pubsubs.MQTTProtocol'], packet: Bytes):
    requires(is_obj(self.addr))
    requires(any_state(self))
    modifies(all_but(KEEP_HANDLE), callbacks())
    ensures(any_state(self))
    # a packet that does not belong to the current state / profile is ignored: nothing written, nothing delivered,
    # no Deferred fired, no state change (a corrupt one may at most abort the connection)
    ensures(implies(not old(self.state == self.CONNECTING), out(self) == old(out(self)) and cb_unchanged() and unchanged(self.state)
                    and fired_stay_fired() and no_new_fired()))
    B = body(packet)
    acc = self.state == self.CONNECTING
    na = as_int(self.transport.tr_aborts)
    d = as_ref(self.connReq.deferred)
    # a CONNACK while connecting decides the handshake: return code 0 connects, every other one fails the Deferred
    ensures(implies(acc and len(B) >= 2, self.transport.tr_aborts == na and d.d_fired and is_none(self.connReq)))
    ensures(implies(acc and len(B) >= 2 and B[1] == 0, self.state == self.CONNECTED))
    ensures(implies(acc and len(B) >= 2 and B[1] == 0, d.d_ok))
    ensures(implies(acc and len(B) >= 2 and B[1] == 0, d.d_val == (B[0] % 2 == 1)))
    ensures(implies(acc and len(B) >= 2 and B[1] != 0, self.state == self.IDLE))
    ensures(implies(acc and len(B) >= 2 and B[1] != 0, not d.d_ok))
    ensures(implies(acc and len(B) >= 2 and B[1] != 0, out(self) == old(out(self))))


@contract('mqtt.client.base.MQTTBaseProtocol._handlePINGRESP', props=['C16', 'C14', 'C03', 'C15'], classes=PROFILES)
def _(self: Ref['mqtt.client.pubsubs.MQTTProtocol'], packet: Bytes):
    requires(is_obj(self.addr))
    requires(any_state(self))
    modifies(all_but(KEEP_HANDLE), callbacks())
    ensures(any_state(self))
    # a packet that does not belong to the current state / profile is ignored: nothing written, nothing delivered,
    # no Deferred fired, no state change (a corrupt one may at most abort the connection)
    ensures(implies(not old(self.state == self.CONNECTED), out(self) == old(out(self)) and cb_unchanged() and unchanged(self.state)
                    and fired_stay_fired() and no_new_fired()))
    acc = self.state == self.CONNECTED
    al = as_ref(self._pingReq.alarm)
    had = not is_none(self._pingReq.alarm)
    # an answered PINGREQ: the deadline is cancelled and forgotten
    ensures(implies(acc, is_none(self._pingReq.alarm) and out(self) == old(out(self)) and unchanged(self.transport.tr_aborts)))
    ensures(implies(acc and had, is_int(al.t_status) and al.t_status == 1))


@contract('mqtt.client.base.MQTTBaseProtocol._handleSUBACK', props=['C16', 'C14', 'C03', 'C07'], classes=PROFILES)
def _(self: Ref['mqtt.client.pubsubs.MQTTProtocol'], packet: Bytes):
    requires(is_obj(self.addr))
    requires(any_state(self))
    modifies(all_but(KEEP_HANDLE), callbacks())
    ensures(any_state(self))
    # a packet that does not belong to the current state / profile is ignored: nothing written, nothing delivered,
    # no Deferred fired, no state change (a corrupt one may at most abort the connection)
    ensures(implies(not old(self.state == self.CONNECTED and not has_class(self, 'mqtt.client.publisher.MQTTProtocol')), out(self) == old(out(self)) and cb_unchanged() and unchanged(self.state)
                    and fired_stay_fired() and no_new_fired()))
    B = body(packet)
    mid = B[0] * 256 + B[1]
    acc = self.state == self.CONNECTED and not has_class(self, 'mqtt.client.publisher.MQTTProtocol')
    na = as_int(self.transport.tr_aborts)
    hit = contains(S(self), mid)
    req = S(self)[mid]
    ensures(implies(acc and len(B) >= 2, self.transport.tr_aborts == na and out(self) == old(out(self))))
    ensures(implies(acc and len(B) >= 2 and hit, not contains(S(self), mid)))
    ensures(implies(acc and len(B) >= 2 and hit, req.deferred.d_fired and req.deferred.d_ok))
    ensures(implies(acc and len(B) >= 2 and hit, is_list_ib(req.deferred.d_val) and len(as_list_ib(req.deferred.d_val)) == len(B) - 2))
    ensures(implies(acc and len(B) >= 2 and hit,
                    forall(lambda i: implies(0 <= i and i < len(B) - 2,
                                             as_list_ib(req.deferred.d_val)[i][0] == B[i + 2] % 128
                                             and as_list_ib(req.deferred.d_val)[i][1] == (B[i + 2] >= 128)))))
    ensures(implies(acc and len(B) >= 2 and not hit, no_new_fired()))


@contract('mqtt.client.base.MQTTBaseProtocol._handleUNSUBACK', props=['C16', 'C14', 'C03', 'C07'], classes=PROFILES)
def _(self: Ref['mqtt.client.pubsubs.MQTTProtocol'], packet: Bytes):
    requires(is_obj(self.addr))
    requires(any_state(self))
    modifies(all_but(KEEP_HANDLE), callbacks())
    ensures(any_state(self))
    # a packet that does not belong to the current state / profile is ignored: nothing written, nothing delivered,
    # no Deferred fired, no state change (a corrupt one may at most abort the connection)
    ensures(implies(not old(self.state == self.CONNECTED and not has_class(self, 'mqtt.client.publisher.MQTTProtocol')), out(self) == old(out(self)) and cb_unchanged() and unchanged(self.state)
                    and fired_stay_fired() and no_new_fired()))
    B = body(packet)
    mid = B[0] * 256 + B[1]
    acc = self.state == self.CONNECTED and not has_class(self, 'mqtt.client.publisher.MQTTProtocol')
    na = as_int(self.transport.tr_aborts)
    hit = contains(U(self), mid)
    req = U(self)[mid]
    ensures(implies(acc and len(B) >= 2, self.transport.tr_aborts == na and out(self) == old(out(self))))
    ensures(implies(acc and len(B) >= 2 and hit, not contains(U(self), mid) and req.deferred.d_fired and req.deferred.d_ok
                    and req.deferred.d_val == mid))
    ensures(implies(acc and len(B) >= 2 and not hit, no_new_fired()))


@contract('mqtt.client.base.MQTTBaseProtocol._handlePUBLISH', props=['C16', 'C14', 'C03', 'C06'], classes=PROFILES)
def _(self: Ref['mqtt.client.pubsubs.MQTTProtocol'], packet: Bytes):
    requires(is_obj(self.addr))
    requires(any_state(self))
    modifies(all_but(KEEP_HANDLE), callbacks())
    ensures(any_state(self))
    # a packet that does not belong to the current state / profile is ignored: nothing written, nothing delivered,
    # no Deferred fired, no state change (a corrupt one may at most abort the connection)
    ensures(implies(not old(self.state == self.CONNECTED and not has_class(self, 'mqtt.client.publisher.MQTTProtocol')), out(self) == old(out(self)) and cb_unchanged() and unchanged(self.state)
                    and fired_stay_fired() and no_new_fired()))
    B = body(packet)
    tl = B[0] * 256 + B[1]
    q = (packet[0] // 2) % 4
    mid = B[tl + 2] * 256 + B[tl + 3]
    acc = self.state == self.CONNECTED and not has_class(self, 'mqtt.client.publisher.MQTTProtocol')
    na = as_int(self.transport.tr_aborts)
    # unless the packet is corrupt (and the connection aborted instead), a PUBLISH the state accepts is answered and
    # delivered with exactly the fields its bytes carry
    ensures(implies(acc and pub_wf(packet), self.transport.tr_aborts == na))      # a well-formed PUBLISH is never dropped
    ensures(implies(acc and self.transport.tr_aborts == na and q == 0, out(self) == old(out(self))))
    ensures(implies(acc and self.transport.tr_aborts == na and q == 1, out(self) == old(out(self)) + lb(sPUBACK(mid))))
    ensures(implies(acc and self.transport.tr_aborts == na and q == 2, out(self) == old(out(self)) + lb(sPUBREC(mid))))
    ensures(implies(acc and self.transport.tr_aborts == na and q == 2, cb_unchanged() and contains(X(self), mid)))
    ensures(implies(acc and self.transport.tr_aborts == na and q == 2, X(self)[mid].qos == 2 and X(self)[mid].payload == B[tl + 4:]))
    ensures(implies(acc and self.transport.tr_aborts == na and q == 2, utf8(X(self)[mid].topic) == B[2:2 + tl]))
    ensures(implies(acc and self.transport.tr_aborts == na and q == 0 and is_func(self.onPublish),
                    cb_appended(self.onPublish, utf8dec(B[2:2 + tl]), B[tl + 2:], 0, (packet[0] // 8) % 2 == 1, packet[0] % 2 == 1, None)))
    ensures(implies(acc and self.transport.tr_aborts == na and q == 1 and is_func(self.onPublish),
                    cb_appended(self.onPublish, utf8dec(B[2:2 + tl]), B[tl + 4:], 1, (packet[0] // 8) % 2 == 1, packet[0] % 2 == 1, mid)))


@contract('mqtt.client.base.MQTTBaseProtocol._handlePUBACK', props=['C16', 'C14', 'C03', 'C05'], classes=PROFILES)
def _(self: Ref['mqtt.client.pubsubs.MQTTProtocol'], packet: Bytes):
    requires(is_obj(self.addr))
    requires(any_state(self))
    modifies(all_but(KEEP_HANDLE), callbacks())
    ensures(any_state(self))
    # a packet that does not belong to the current state / profile is ignored: nothing written, nothing delivered,
    # no Deferred fired, no state change (a corrupt one may at most abort the connection)
    ensures(implies(not old(self.state == self.CONNECTED and not has_class(self, 'mqtt.client.subscriber.MQTTProtocol')), out(self) == old(out(self)) and cb_unchanged() and unchanged(self.state)
                    and fired_stay_fired() and no_new_fired()))
    # a PUBACK the state accepts takes effect: it is decoded (two identifier bytes suffice) and handled
    B = body(packet)
    mid = B[0] * 256 + B[1]
    acc = self.state == self.CONNECTED and not has_class(self, 'mqtt.client.subscriber.MQTTProtocol')
    na = as_int(self.transport.tr_aborts)
    hit = contains(W(self), mid)
    req = W(self)[mid]
    ensures(implies(acc and len(B) >= 2, self.transport.tr_aborts == na))
    ensures(implies(acc and len(B) >= 2 and hit, req.deferred.d_fired and req.deferred.d_ok and req.deferred.d_val == mid))
    ensures(implies(acc and len(B) >= 2 and not hit, out(self) == old(out(self)) and no_new_fired()))


@contract('mqtt.client.base.MQTTBaseProtocol._handlePUBREL', props=['C16', 'C14', 'C03', 'C06'], classes=PROFILES)
def _(self: Ref['mqtt.client.pubsubs.MQTTProtocol'], packet: Bytes):
    requires(is_obj(self.addr))
    requires(any_state(self))
    modifies(all_but(KEEP_HANDLE), callbacks())
    ensures(any_state(self))
    # a packet that does not belong to the current state / profile is ignored: nothing written, nothing delivered,
    # no Deferred fired, no state change (a corrupt one may at most abort the connection)
    ensures(implies(not old(self.state == self.CONNECTED and not has_class(self, 'mqtt.client.publisher.MQTTProtocol')), out(self) == old(out(self)) and cb_unchanged() and unchanged(self.state)
                    and fired_stay_fired() and no_new_fired()))
    B = body(packet)
    mid = B[0] * 256 + B[1]
    acc = self.state == self.CONNECTED and not has_class(self, 'mqtt.client.publisher.MQTTProtocol')
    na = as_int(self.transport.tr_aborts)
    hit = contains(X(self), mid)
    msg = X(self)[mid]
    # every PUBREL the state accepts is answered by exactly one PUBCOMP; the held message is delivered then
    ensures(implies(acc and len(B) >= 2, self.transport.tr_aborts == na and out(self) == old(out(self)) + lb(sPUBCOMP(mid))))
    ensures(implies(acc and len(B) >= 2 and hit, not contains(X(self), mid)
                    and (cb_appended(self.onPublish, msg.topic, msg.payload, msg.qos, msg.dup, msg.retain, msg.msgId)
                         if is_func(self.onPublish) else cb_unchanged())))
    ensures(implies(acc and len(B) >= 2 and not hit, cb_unchanged()))


@contract('mqtt.client.base.MQTTBaseProtocol._handlePUBREC', props=['C16', 'C14', 'C03', 'C05', 'C09'], classes=PROFILES)
def _(self: Ref['mqtt.client.pubsubs.MQTTProtocol'], packet: Bytes):
    requires(is_obj(self.addr))
    requires(any_state(self))
    modifies(all_but(KEEP_HANDLE), callbacks())
    ensures(any_state(self))
    # a packet that does not belong to the current state / profile is ignored: nothing written, nothing delivered,
    # no Deferred fired, no state change (a corrupt one may at most abort the connection)
    ensures(implies(not old(self.state == self.CONNECTED and not has_class(self, 'mqtt.client.subscriber.MQTTProtocol')), out(self) == old(out(self)) and cb_unchanged() and unchanged(self.state)
                    and fired_stay_fired() and no_new_fired()))
    B = body(packet)
    mid = B[0] * 256 + B[1]
    acc = self.state == self.CONNECTED and not has_class(self, 'mqtt.client.subscriber.MQTTProtocol')
    na = as_int(self.transport.tr_aborts)
    hit = contains(W(self), mid)
    ensures(implies(acc and len(B) >= 2, self.transport.tr_aborts == na and no_new_fired()))
    ensures(implies(acc and len(B) >= 2 and hit, out(self) == old(out(self)) + lb(sPUBREL(mid))
                    and not contains(W(self), mid) and contains(R(self), mid)))
    ensures(implies(acc and len(B) >= 2 and not hit, out(self) == old(out(self))))


@contract('mqtt.client.base.MQTTBaseProtocol._handlePUBCOMP', props=['C16', 'C14', 'C03', 'C05', 'C09'], classes=PROFILES)
def _(self: Ref['mqtt.client.pubsubs.MQTTProtocol'], packet: Bytes):
    requires(is_obj(self.addr))
    requires(any_state(self))
    modifies(all_but(KEEP_HANDLE), callbacks())
    ensures(any_state(self))
    # a packet that does not belong to the current state / profile is ignored: nothing written, nothing delivered,
    # no Deferred fired, no state change (a corrupt one may at most abort the connection)
    ensures(implies(not old(self.state == self.CONNECTED and not has_class(self, 'mqtt.client.subscriber.MQTTProtocol')), out(self) == old(out(self)) and cb_unchanged() and unchanged(self.state)
                    and fired_stay_fired() and no_new_fired()))
    B = body(packet)
    mid = B[0] * 256 + B[1]
    acc = self.state == self.CONNECTED and not has_class(self, 'mqtt.client.subscriber.MQTTProtocol')
    na = as_int(self.transport.tr_aborts)
    hit = contains(R(self), mid)
    rep = R(self)[mid]
    ensures(implies(acc and len(B) >= 2, self.transport.tr_aborts == na))
    ensures(implies(acc and len(B) >= 2 and hit, not contains(R(self), mid) and rep.deferred.d_fired and rep.deferred.d_ok
                    and rep.deferred.d_val == mid))
    ensures(implies(acc and len(B) >= 2 and not hit, out(self) == old(out(self)) and no_new_fired()))


@contract('mqtt.client.base.MQTTBaseProtocol._processPacket', props=['C16', 'C14', 'C03'], classes=PROFILES)
def _(self: Ref['mqtt.client.pubsubs.MQTTProtocol'], packet: Bytes):
    requires(is_obj(self.addr))
    requires(any_state(self) and is_list_bytes(self.g_dispatched))
    requires(len(packet) >= 2)
    modifies(all_but(KEEP_PROCESS), callbacks())
    ghost_set(self.g_dispatched, as_list_bytes(self.g_dispatched) + lb(packet))
    ensures(any_state(self))
    ensures(self.g_dispatched == old(as_list_bytes(self.g_dispatched)) + lb(packet))
    # routing by the packet-type nibble: each broker packet reaches its decoder and has the decoder's effect ...
    t = packet[0] // 16
    B = body(packet)
    mid = B[0] * 256 + B[1]
    conn = self.state == self.CONNECTED
    pub = not has_class(self, 'mqtt.client.subscriber.MQTTProtocol')
    sub = not has_class(self, 'mqtt.client.publisher.MQTTProtocol')
    na = as_int(self.transport.tr_aborts)
    d = as_ref(self.connReq.deferred)
    reqW = W(self)[mid]
    repR = R(self)[mid]
    reqS = S(self)[mid]
    reqU = U(self)[mid]
    hitW = contains(W(self), mid)
    hitR = contains(R(self), mid)
    hitS = contains(S(self), mid)
    hitU = contains(U(self), mid)
    ptl = B[0] * 256 + B[1]
    pq = (packet[0] // 2) % 4
    pmid = B[ptl + 2] * 256 + B[ptl + 3]
    ensures(implies(t == 2 and self.state == self.CONNECTING and len(B) >= 2, d.d_fired and is_none(self.connReq)))
    ensures(implies(t == 3 and conn and sub and pub_wf(packet), self.transport.tr_aborts == na))
    ensures(implies(t == 3 and conn and sub and self.transport.tr_aborts == na and pq == 1, out(self) == old(out(self)) + lb(sPUBACK(pmid))))
    ensures(implies(t == 3 and conn and sub and self.transport.tr_aborts == na and pq == 2, out(self) == old(out(self)) + lb(sPUBREC(pmid))))
    ensures(implies(t == 3 and conn and sub and self.transport.tr_aborts == na and pq == 0 and is_func(self.onPublish),
                    cb_appended(self.onPublish, utf8dec(B[2:2 + ptl]), B[ptl + 2:], 0, (packet[0] // 8) % 2 == 1, packet[0] % 2 == 1, None)))
    ensures(implies(t == 4 and conn and pub and len(B) >= 2 and hitW, reqW.deferred.d_fired and reqW.deferred.d_ok and reqW.deferred.d_val == mid))
    ensures(implies(t == 5 and conn and pub and len(B) >= 2 and hitW, out(self) == old(out(self)) + lb(sPUBREL(mid)) and contains(R(self), mid)))
    ensures(implies(t == 6 and conn and sub and len(B) >= 2, out(self) == old(out(self)) + lb(sPUBCOMP(mid))))
    ensures(implies(t == 7 and conn and pub and len(B) >= 2 and hitR, repR.deferred.d_fired and repR.deferred.d_ok and repR.deferred.d_val == mid))
    ensures(implies(t == 9 and conn and sub and len(B) >= 2 and hitS, reqS.deferred.d_fired and reqS.deferred.d_ok and not contains(S(self), mid)))
    ensures(implies(t == 11 and conn and sub and len(B) >= 2 and hitU, reqU.deferred.d_fired and reqU.deferred.d_ok and reqU.deferred.d_val == mid))
    ensures(implies(t == 13 and conn, is_none(self._pingReq.alarm)))
    # ... and anything else (reserved types 0 and 15, packets only a client may send) has no application-visible effect
    # (the code aborts the connection; the property allows that as the strongest reaction and does not demand it)
    ensures(implies(t == 0 or t == 1 or t == 8 or t == 10 or t == 12 or t == 14 or t == 15,
                    out(self) == old(out(self)) and cb_unchanged() and unchanged(self.state)
                    and fired_stay_fired() and no_new_fired()))


# C19: a packet object built for an inbound PUBLISH belongs to the address of the protocol that received it
@ghost_at('mqtt.client.base.MQTTBaseProtocol._handlePUBLISH', after='response = PUBLISH()')
def _():
    gset(response.g_addr, self.addr)
