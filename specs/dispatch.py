"""C16 / C14 / C03: from raw bytes to the handlers: PUBLISH.decode on arbitrary bytes, the _handleXXX decoders,
_processPacket (packet-type dispatch) and dataReceived.  No exception may escape; every path re-establishes the
state invariant any_state(self)."""
from pyvc.speclang import *
from specs.wire import *
from specs.state import *
from specs.inv import *
from specs.acks import *
from specs.connection import *
from specs.inbound import *
from specs.api_entry import *
from specs.session import *

KEEP_HANDLE = ['_buffer', 'g_dispatched', 'g_firing', 'id', 'IDLE', 'CONNECTING', 'CONNECTED', 'protocol', 'factory', 'addr', 'transport',
               '_pingReq', 'queuePublishTx', 'windowPublish', 'windowPubRelease', 'windowPubRx', 'windowSubscribe',
               'windowUnsubscribe', '_window', '_initialT', '_bandwith', '_factor', '_version', '_cleanStart',
               'onPublish', 'onDisconnection', 'onMqttConnectionMade', 'pdu', 'tr_closes']
KEEP_PROCESS = ['_buffer', 'g_firing', 'id', 'IDLE', 'CONNECTING', 'CONNECTED', 'protocol', 'factory', 'addr', 'transport',
                '_pingReq', 'queuePublishTx', 'windowPublish', 'windowPubRelease', 'windowPubRx', 'windowSubscribe',
                'windowUnsubscribe', '_window', '_initialT', '_bandwith', '_factor', '_version', '_cleanStart',
                'onPublish', 'onDisconnection', 'onMqttConnectionMade', 'pdu', 'tr_closes']

KEEP_RECV = ['g_firing', 'id', 'IDLE', 'CONNECTING', 'CONNECTED', 'protocol', 'factory', 'addr', 'transport',
             '_pingReq', 'queuePublishTx', 'windowPublish', 'windowPubRelease', 'windowPubRx', 'windowSubscribe',
             'windowUnsubscribe', '_window', '_initialT', '_bandwith', '_factor', '_version', '_cleanStart',
             'onPublish', 'onDisconnection', 'onMqttConnectionMade', 'pdu', 'tr_closes']


@spec
def no_new_fired() -> bool:
    """no Deferred that existed before has fired during this step"""
    return forall(lambda d: implies(old(is_bool(obj_at(d).d_fired) and not obj_at(d).d_fired), unchanged(obj_at(d).d_fired)))


@contract('mqtt.pdu.PUBLISH.decode', props=['C16', 'C06'])
def _(self: Ref['mqtt.pdu.PUBLISH'], packet: Bytes):
    """arbitrary bytes: either an exception (truncated / corrupt / invalid UTF-8), or fields that all lie inside the
    frame as delimited by its remaining length"""
    requires(is_unset(self.deferred) and is_unset(self.alarm))
    raises(Exception)
    modifies(self.encoded, self.dup, self.qos, self.retain, self.topic, self.msgId, self.payload)
    ensures(decoded_publish(self))
    ensures(self.encoded == packet)
    ensures(2 + len(utf8(self.topic)) + (2 if self.qos > 0 else 0) <= len(body(packet)))


@contract('mqtt.client.base.MQTTBaseProtocol._handleCONNACK', props=['C16', 'C14', 'C04', 'C03'], classes=PROFILES)
def _(self: Ref['mqtt.client.pubsubs.MQTTProtocol'], packet: Bytes):
    requires(is_obj(self.addr))
    requires(any_state(self))
    modifies(all_but(KEEP_HANDLE), callbacks())
    ensures(any_state(self))
    # a packet that does not belong to the current state / profile is ignored: nothing written, nothing delivered,
    # no Deferred fired, no state change (a corrupt one may at most abort the connection)
    ensures(implies(not old(self.state == self.CONNECTING), out(self) == old(out(self)) and cb_unchanged() and unchanged(self.state)
                    and fired_stay_fired() and no_new_fired()))


@contract('mqtt.client.base.MQTTBaseProtocol._handlePINGRESP', props=['C16', 'C14', 'C03', 'C15'], classes=PROFILES)
def _(self: Ref['mqtt.client.pubsubs.MQTTProtocol'], packet: Bytes):
    requires(is_obj(self.addr))
    requires(any_state(self))
    modifies(all_but(KEEP_HANDLE), callbacks())
    ensures(any_state(self))
    # a packet that does not belong to the current state / profile is ignored: nothing written, nothing delivered,
    # no Deferred fired, no state change (a corrupt one may at most abort the connection)
    ensures(implies(not old(self.state == self.CONNECTED), out(self) == old(out(self)) and cb_unchanged() and unchanged(self.state)
                    and fired_stay_fired() and no_new_fired()))


@contract('mqtt.client.base.MQTTBaseProtocol._handleSUBACK', props=['C16', 'C14', 'C03', 'C07'], classes=PROFILES)
def _(self: Ref['mqtt.client.pubsubs.MQTTProtocol'], packet: Bytes):
    requires(is_obj(self.addr))
    requires(any_state(self))
    modifies(all_but(KEEP_HANDLE), callbacks())
    ensures(any_state(self))
    # a packet that does not belong to the current state / profile is ignored: nothing written, nothing delivered,
    # no Deferred fired, no state change (a corrupt one may at most abort the connection)
    ensures(implies(not old(self.state == self.CONNECTED and not has_class(self, 'mqtt.client.publisher.MQTTProtocol')), out(self) == old(out(self)) and cb_unchanged() and unchanged(self.state)
                    and fired_stay_fired() and no_new_fired()))


@contract('mqtt.client.base.MQTTBaseProtocol._handleUNSUBACK', props=['C16', 'C14', 'C03', 'C07'], classes=PROFILES)
def _(self: Ref['mqtt.client.pubsubs.MQTTProtocol'], packet: Bytes):
    requires(is_obj(self.addr))
    requires(any_state(self))
    modifies(all_but(KEEP_HANDLE), callbacks())
    ensures(any_state(self))
    # a packet that does not belong to the current state / profile is ignored: nothing written, nothing delivered,
    # no Deferred fired, no state change (a corrupt one may at most abort the connection)
    ensures(implies(not old(self.state == self.CONNECTED and not has_class(self, 'mqtt.client.publisher.MQTTProtocol')), out(self) == old(out(self)) and cb_unchanged() and unchanged(self.state)
                    and fired_stay_fired() and no_new_fired()))


@contract('mqtt.client.base.MQTTBaseProtocol._handlePUBLISH', props=['C16', 'C14', 'C03', 'C06'], classes=PROFILES)
def _(self: Ref['mqtt.client.pubsubs.MQTTProtocol'], packet: Bytes):
    requires(is_obj(self.addr))
    requires(any_state(self))
    modifies(all_but(KEEP_HANDLE), callbacks())
    ensures(any_state(self))
    # a packet that does not belong to the current state / profile is ignored: nothing written, nothing delivered,
    # no Deferred fired, no state change (a corrupt one may at most abort the connection)
    ensures(implies(not old(self.state == self.CONNECTED and not has_class(self, 'mqtt.client.publisher.MQTTProtocol')), out(self) == old(out(self)) and cb_unchanged() and unchanged(self.state)
                    and fired_stay_fired() and no_new_fired()))


@contract('mqtt.client.base.MQTTBaseProtocol._handlePUBACK', props=['C16', 'C14', 'C03', 'C05'], classes=PROFILES)
def _(self: Ref['mqtt.client.pubsubs.MQTTProtocol'], packet: Bytes):
    requires(is_obj(self.addr))
    requires(any_state(self))
    modifies(all_but(KEEP_HANDLE), callbacks())
    ensures(any_state(self))
    # a packet that does not belong to the current state / profile is ignored: nothing written, nothing delivered,
    # no Deferred fired, no state change (a corrupt one may at most abort the connection)
    ensures(implies(not old(self.state == self.CONNECTED and not has_class(self, 'mqtt.client.subscriber.MQTTProtocol')), out(self) == old(out(self)) and cb_unchanged() and unchanged(self.state)
                    and fired_stay_fired() and no_new_fired()))


@contract('mqtt.client.base.MQTTBaseProtocol._handlePUBREL', props=['C16', 'C14', 'C03', 'C06'], classes=PROFILES)
def _(self: Ref['mqtt.client.pubsubs.MQTTProtocol'], packet: Bytes):
    requires(is_obj(self.addr))
    requires(any_state(self))
    modifies(all_but(KEEP_HANDLE), callbacks())
    ensures(any_state(self))
    # a packet that does not belong to the current state / profile is ignored: nothing written, nothing delivered,
    # no Deferred fired, no state change (a corrupt one may at most abort the connection)
    ensures(implies(not old(self.state == self.CONNECTED and not has_class(self, 'mqtt.client.publisher.MQTTProtocol')), out(self) == old(out(self)) and cb_unchanged() and unchanged(self.state)
                    and fired_stay_fired() and no_new_fired()))


@contract('mqtt.client.base.MQTTBaseProtocol._handlePUBREC', props=['C16', 'C14', 'C03', 'C05', 'C09'], classes=PROFILES)
def _(self: Ref['mqtt.client.pubsubs.MQTTProtocol'], packet: Bytes):
    requires(is_obj(self.addr))
    requires(any_state(self))
    modifies(all_but(KEEP_HANDLE), callbacks())
    ensures(any_state(self))
    # a packet that does not belong to the current state / profile is ignored: nothing written, nothing delivered,
    # no Deferred fired, no state change (a corrupt one may at most abort the connection)
    ensures(implies(not old(self.state == self.CONNECTED and not has_class(self, 'mqtt.client.subscriber.MQTTProtocol')), out(self) == old(out(self)) and cb_unchanged() and unchanged(self.state)
                    and fired_stay_fired() and no_new_fired()))


@contract('mqtt.client.base.MQTTBaseProtocol._handlePUBCOMP', props=['C16', 'C14', 'C03', 'C05', 'C09'], classes=PROFILES)
def _(self: Ref['mqtt.client.pubsubs.MQTTProtocol'], packet: Bytes):
    requires(is_obj(self.addr))
    requires(any_state(self))
    modifies(all_but(KEEP_HANDLE), callbacks())
    ensures(any_state(self))
    # a packet that does not belong to the current state / profile is ignored: nothing written, nothing delivered,
    # no Deferred fired, no state change (a corrupt one may at most abort the connection)
    ensures(implies(not old(self.state == self.CONNECTED and not has_class(self, 'mqtt.client.subscriber.MQTTProtocol')), out(self) == old(out(self)) and cb_unchanged() and unchanged(self.state)
                    and fired_stay_fired() and no_new_fired()))


@contract('mqtt.client.base.MQTTBaseProtocol._processPacket', props=['C16', 'C14', 'C03'], classes=PROFILES)
def _(self: Ref['mqtt.client.pubsubs.MQTTProtocol'], packet: Bytes):
    requires(is_obj(self.addr))
    requires(any_state(self) and is_list_bytes(self.g_dispatched))
    requires(len(packet) >= 2)
    modifies(all_but(KEEP_PROCESS), callbacks())
    ghost_set(self.g_dispatched, as_list_bytes(self.g_dispatched) + lb(packet))
    ensures(any_state(self))
    ensures(self.g_dispatched == old(as_list_bytes(self.g_dispatched)) + lb(packet))
