"""C04 / C15 / C18 / C11 / C12 / C13: connect handshake, keepalive, disconnect, connection loss."""
from pyvc.speclang import *
from specs.wire import *
from specs.state import *
from specs.inv import *
from specs.retry import *
from specs.acks import *
from specs.session import *
from specs.api_checks import *

PROFILES = ['mqtt.client.pubsubs.MQTTProtocol', 'mqtt.client.publisher.MQTTProtocol', 'mqtt.client.subscriber.MQTTProtocol']
FN_CONNECT_ERR = 'mqtt.client.base.MQTTBaseProtocol.doConnect.connectError'
FN_PING_ERR = 'mqtt.client.base.MQTTBaseProtocol.doPingRequest.doPingError'


KEEP_MADE = KEEP + ['deferred', 'd_owner', 't_status', 't_fn', 't_arg', 't_owner', 't_delay']


@spec
def ping_ok(self: Ref['mqtt.client.pubsubs.MQTTProtocol']) -> bool:
    """keepalive machinery: the PINGREQ object, its periodic timer and its (single) deadline"""
    return (isa(self._pingReq, 'mqtt.pdu.PINGREQ') and is_bytes(self._pingReq.pdu) and self._pingReq.pdu == sPINGREQ()
            and (is_none(self._pingReq.timer)
                 or (isa(self._pingReq.timer, 'LoopingCall') and is_bool(self._pingReq.timer.lc_running) and self._pingReq.timer.lc_running
                     and is_int(self._pingReq.keepalive) and 1 <= self._pingReq.keepalive and self._pingReq.keepalive <= 65535
                     and self.state == self.CONNECTED))
            and (is_none(self._pingReq.alarm)
                 or (isa(self._pingReq.alarm, 'DelayedCall') and is_int(self._pingReq.alarm.t_status) and self._pingReq.alarm.t_status == 0
                     and is_int(self._pingReq.alarm.t_fn)
                     and self._pingReq.alarm.t_fn == fn('mqtt.client.base.MQTTBaseProtocol.doPingRequest.doPingError')
                     and self._pingReq.alarm.t_owner == self and is_none(self._pingReq.alarm.t_arg))))


@spec
def callbacks_ok(self: Ref['mqtt.client.pubsubs.MQTTProtocol']) -> bool:
    return ((is_none(self.onPublish) or is_func(self.onPublish))
            and (is_none(self.onDisconnection) or is_func(self.onDisconnection))
            and (is_none(self.onMqttConnectionMade) or is_func(self.onMqttConnectionMade)))


@spec
def base_ok(self: Ref['mqtt.client.pubsubs.MQTTProtocol']) -> bool:
    """everything that holds in every state"""
    return (inv(self) and is_list_bytes(self.transport.tr_out) and is_int(self.transport.tr_aborts) and is_int(self.transport.tr_closes)
            and is_none(self.g_firing) and callbacks_ok(self) and wf_states(self) and ping_ok(self))


@spec
def connecting(self: Ref['mqtt.client.pubsubs.MQTTProtocol']) -> bool:
    """I.conn: while connecting, one unfired connect Deferred guarded by one ACTIVE CONNACK timer"""
    return (self.state == self.CONNECTING and isa(self.connReq, 'mqtt.pdu.CONNECT')
            and isa(self.connReq.deferred, 'Deferred') and is_bool(self.connReq.deferred.d_fired) and not self.connReq.deferred.d_fired
            and isa(self.connReq.alarm, 'DelayedCall') and is_int(self.connReq.alarm.t_status) and self.connReq.alarm.t_status == 0
            and self.connReq.alarm.t_arg == self.connReq and self.connReq.alarm.t_owner == self
            and is_int(self.connReq.keepalive) and 0 <= self.connReq.keepalive and self.connReq.keepalive <= 65535
            and is_none(self._pingReq.timer) and is_none(self._pingReq.alarm))


# ---------------------------------------------------------------- CONNACK -> session purge / resume
@contract('mqtt.client.pubsubs.MQTTProtocol.mqttConnectionMade', props=['C12', 'C11', 'C04', 'C13'], classes=PROFILES)
def _(self: Ref['mqtt.client.pubsubs.MQTTProtocol']):
    requires(is_obj(self.addr))
    requires(inv(self) and is_list_bytes(self.transport.tr_out) and is_none(self.g_firing) and callbacks_ok(self))
    requires(forall(lambda k: implies(contains(S(self), k), not is_none(S(self)[k].alarm))))
    requires(forall(lambda k: implies(contains(U(self), k), not is_none(U(self)[k].alarm))))
    modifies(all_but(KEEP_MADE), callbacks())
    ensures(inv(self) and is_list_bytes(self.transport.tr_out))
    ensures(alarms_set(self))
    ensures(unchanged(self._pingReq.alarm) and conn_untouched(self))
    ensures(same_containers(self))
    # clean session: what an earlier connection left behind fails with MQTTSessionCleared; nothing is written
    ensures(implies(self._cleanStart, out(self) == old(out(self))))
    ensures(implies(self._cleanStart, forall(lambda k: implies(old(contains(W(self), k)) and old(is_none(W(self)[k].alarm)),
                                                               not contains(W(self), k) and old(W(self)[k]).deferred.d_fired
                                                               and not old(W(self)[k]).deferred.d_ok and is_exc(old(W(self)[k]).deferred.d_val)))))
    # persistent session: nothing fails; what was left behind is sent again (DUP), the rest is untouched
    ensures(implies(not self._cleanStart, forall(lambda k: contains(W(self), k) == old(contains(W(self), k)) and W(self)[k] == old(W(self)[k]))))
    ensures(implies(not self._cleanStart, forall(lambda k: implies(contains(W(self), k) and old(is_none(W(self)[k].alarm)),
                                                                   resumed_pub(self, W(self)[k], old(as_bytes(W(self)[k].encoded)))))))
    ensures(implies(not self._cleanStart, forall(lambda k: implies(contains(R(self), k) and old(is_none(R(self)[k].alarm)),
                                                                   resumed_rel(self, R(self)[k], old(as_bytes(R(self)[k].encoded)))))))
    # requests made on this connection before its CONNACK are neither failed nor re-sent
    ensures(forall(lambda k: implies(old(contains(W(self), k)) and not old(is_none(W(self)[k].alarm)),
                                     contains(W(self), k) and W(self)[k] == old(W(self)[k]) and W(self)[k].alarm == old(W(self)[k].alarm)
                                     and W(self)[k].encoded == old(W(self)[k].encoded) and not W(self)[k].deferred.d_fired)))
    ensures(cb_appended(self.onMqttConnectionMade) if is_func(self.onMqttConnectionMade) else cb_unchanged())
    ensures(implies(old(conn_deferred_owned(self)), unchanged(self.connReq.deferred.d_fired)))


# ---------------------------------------------------------------- keepalive
@contract('mqtt.client.base.MQTTBaseProtocol.doPingRequest', props=['C15', 'C18', 'C02', 'C13'])
def _(self: Ref['mqtt.client.base.MQTTBaseProtocol']):
    requires(isa(self.transport, 'Transport') and is_list_bytes(self.transport.tr_out))
    requires(isa(self._pingReq, 'mqtt.pdu.PINGREQ') and is_bytes(self._pingReq.pdu) and self._pingReq.pdu == sPINGREQ())
    requires(is_int(self._pingReq.keepalive) and 1 <= self._pingReq.keepalive)
    requires(is_none(self._pingReq.alarm) or isa(self._pingReq.alarm, 'DelayedCall'))
    modifies(self.transport.tr_out, self._pingReq.alarm, allocates())
    ensures(is_list_bytes(self.transport.tr_out) and out(self) == old(out(self)) + lb(sPINGREQ()))
    ensures(no_other_timer(self._pingReq.alarm))
    # a single deadline: armed only if none is pending, k seconds ahead, aborting the connection when it expires
    ensures(implies(old(is_none(self._pingReq.alarm)),
                    isa(self._pingReq.alarm, 'DelayedCall') and is_fresh(self._pingReq.alarm)
                    and is_int(self._pingReq.alarm.t_status) and self._pingReq.alarm.t_status == 0
                    and is_int(self._pingReq.alarm.t_fn)
                    and self._pingReq.alarm.t_fn == fn('mqtt.client.base.MQTTBaseProtocol.doPingRequest.doPingError')
                    and self._pingReq.alarm.t_owner == self and is_none(self._pingReq.alarm.t_arg)
                    and num(self._pingReq.alarm.t_delay) == num(self._pingReq.keepalive)))
    ensures(implies(not old(is_none(self._pingReq.alarm)), unchanged(self._pingReq.alarm)))


@contract('mqtt.client.base.MQTTBaseProtocol.doPingRequest.doPingError', props=['C15', 'C13', 'C16'])
def _(self: Ref['mqtt.client.base.MQTTBaseProtocol']):
    requires(isa(self.transport, 'Transport') and is_int(self.transport.tr_aborts) and isa(self._pingReq, 'mqtt.pdu.PINGREQ'))
    modifies(self.transport.tr_aborts, self._pingReq.alarm)
    ensures(is_none(self._pingReq.alarm))
    ensures(is_int(self.transport.tr_aborts) and self.transport.tr_aborts == old(self.transport.tr_aborts) + 1)


@contract('mqtt.client.base.MQTTBaseProtocol.handlePINGRESP', props=['C15', 'C16', 'C13'])
def _(self: Ref['mqtt.client.base.MQTTBaseProtocol']):
    requires(isa(self._pingReq, 'mqtt.pdu.PINGREQ'))
    requires(is_none(self._pingReq.alarm)
             or (isa(self._pingReq.alarm, 'DelayedCall') and is_int(self._pingReq.alarm.t_status) and self._pingReq.alarm.t_status == 0))
    al = as_ref(self._pingReq.alarm)
    modifies(self._pingReq.alarm, self._pingReq.alarm.t_status)
    # a pending deadline is cancelled; an unsolicited PINGRESP has no effect and raises nothing
    ensures(is_none(self._pingReq.alarm))
    ensures(implies(not old(is_none(self._pingReq.alarm)), is_int(al.t_status) and al.t_status == 1))


# ---------------------------------------------------------------- disconnect()
@contract('mqtt.client.base.MQTTBaseProtocol.doDisconnect', props=['C18', 'C02'])
def _(self: Ref['mqtt.client.base.MQTTBaseProtocol'], request: Ref['mqtt.pdu.DISCONNECT']):
    requires(isa(self.transport, 'Transport') and is_list_bytes(self.transport.tr_out) and is_int(self.transport.tr_closes))
    modifies(self.transport.tr_out, self.transport.tr_closes, request.encoded, self.g_sent_disconnect)
    ensures(is_list_bytes(self.transport.tr_out) and out(self) == old(out(self)) + lb(sDISCONNECT()))
    ensures(is_int(self.transport.tr_closes) and self.transport.tr_closes == old(self.transport.tr_closes) + 1)


# ---------------------------------------------------------------- connect()
@spec
def sok(s: Str) -> bool:
    return encodable(s) and len(utf8(s)) <= 65535


@spec
def connect_rejected(request: Ref['mqtt.pdu.CONNECT']) -> bool:
    """the listed argument errors, or a string that cannot be encoded (not UTF-8 encodable / over 65535 bytes)"""
    return (connect_args_bad(request) or not sok(request.clientId)
            or (is_str(request.willTopic) and not (sok(request.willTopic) and sok(request.willMessage)))
            or (is_str(request.username) and not sok(request.username))
            or (is_str(request.password) and not sok(request.password)))


@contract('mqtt.client.base.MQTTBaseProtocol.doConnect', props=['C04', 'C20', 'C18', 'C02', 'C13'])
def _(self: Ref['mqtt.client.base.MQTTBaseProtocol'], request: Ref['mqtt.pdu.CONNECT']) -> Ref['Deferred']:
    requires(isa(self.transport, 'Transport') and is_list_bytes(self.transport.tr_out))
    requires(connect_typed(request) and is_unset(request.alarm) and is_unset(request.deferred))
    requires(is_ref(self.CONNECTING))
    modifies(self._cleanStart, self._version, self.transport.tr_out, self.state, request.alarm, request.deferred,
             request.encoded, self.connReq, self.g_sent_connect, allocates())
    ensures(is_bool(result.d_fired) and is_list_bytes(self.transport.tr_out))
    ensures(no_other_timer(request.alarm))
    # refused up front: failed Deferred, nothing written, no timer, state unchanged
    ensures(implies(connect_rejected(request), result.d_fired and not result.d_ok and is_exc(result.d_val)
                    and not (result.d_val == exc('MQTTStateError'))
                    and out(self) == old(out(self)) and unchanged(self.state, self.connReq, request.alarm, self._cleanStart, self._version)))
    # accepted: exactly one CONNECT, connecting, one CONNACK timer of keepalive (10 if 0) seconds
    ensures(implies(not connect_rejected(request),
                    out(self) == old(out(self)) + lb(sCONNECT(request.version, request.cleanStart, is_str(request.willTopic),
                                                             request.willQoS, request.willRetain, request.willTopic, request.willMessage,
                                                             is_str(request.username), request.username, is_str(request.password),
                                                             request.password, request.keepalive, request.clientId))
                    and self.state == self.CONNECTING and self.connReq == request and result == request.deferred
                    and isa(request.deferred, 'Deferred') and request.deferred.d_owner == request
                    and not result.d_fired and self._cleanStart == request.cleanStart and self._version == request.version
                    and isa(request.alarm, 'DelayedCall') and is_fresh(request.alarm) and is_int(request.alarm.t_status)
                    and request.alarm.t_status == 0 and is_int(request.alarm.t_fn)
                    and request.alarm.t_fn == fn('mqtt.client.base.MQTTBaseProtocol.doConnect.connectError')
                    and request.alarm.t_owner == self and request.alarm.t_arg == request
                    and num(request.alarm.t_delay) == (num(request.keepalive) if request.keepalive != 0 else 10)))


@contract('mqtt.client.base.MQTTBaseProtocol.doConnect.connectError', props=['C04', 'C13', 'C16'])
def _(self: Ref['mqtt.client.base.MQTTBaseProtocol'], request: Ref['mqtt.pdu.CONNECT']):
    """the CONNACK timeout (closure of doConnect: the captured variables are its parameters)"""
    requires(isa(self.transport, 'Transport') and is_int(self.transport.tr_aborts))
    requires(isa(request.deferred, 'Deferred') and is_bool(request.deferred.d_fired) and not request.deferred.d_fired)
    requires(is_ref(self.IDLE))
    d = as_ref(request.deferred)
    modifies(d.d_fired, d.d_ok, d.d_val, request.deferred, self.state, self.transport.tr_aborts)
    ensures(d.d_fired and not d.d_ok and is_exc(d.d_val))
    ensures(is_none(request.deferred) and self.state == self.IDLE)
    ensures(is_int(self.transport.tr_aborts) and self.transport.tr_aborts == old(self.transport.tr_aborts) + 1)


@ghost_at('mqtt.client.base.MQTTBaseProtocol.doConnect', after='request.deferred = defer.Deferred()')
def _():
    gset(request.deferred.d_owner, request)


# ---------------------------------------------------------------- CONNACK
KEEP_CONN = ['g_base', 'g_addr', '_buffer', 'g_dispatched', 'g_firing', 'id', 'IDLE', 'CONNECTING', 'CONNECTED', 'protocol', 'factory', 'addr', 'transport',
             '_pingReq', 'queuePublishTx', 'windowPublish', 'windowPubRelease', 'windowPubRx', 'windowSubscribe',
             'windowUnsubscribe', '_window', '_initialT', '_bandwith', '_factor', '_version', '_cleanStart',
             'onPublish', 'onDisconnection', 'onMqttConnectionMade', 'pdu', 'tr_aborts', 'tr_closes', 'resultCode', 'session']


@contract('mqtt.client.base.MQTTBaseProtocol.handleCONNACK', props=['C04', 'C15', 'C12', 'C11', 'C16', 'C13', 'C18'], classes=PROFILES)
def _(self: Ref['mqtt.client.pubsubs.MQTTProtocol'], response: Ref['mqtt.pdu.CONNACK']):
    requires(is_obj(self.addr))
    requires(any_state(self) and self.state == self.CONNECTING)
    requires(is_int(response.resultCode) and 0 <= response.resultCode <= 255 and is_bool(response.session))
    req = as_ref(self.connReq)
    d = as_ref(self.connReq.deferred)
    al = as_ref(self.connReq.alarm)
    ka = as_int(self.connReq.keepalive)
    modifies(all_but(KEEP_CONN), callbacks())
    ensures(any_state(self))
    ensures(is_none(self.connReq) and is_int(al.t_status) and al.t_status == 1)
    # accepted: connected, Deferred fires with the session-present flag, session purged/resumed, keepalive wired
    ensures(implies(response.resultCode == 0, self.state == self.CONNECTED and alarms_set(self)
                    and d.d_fired and d.d_ok and d.d_val == response.session))
    ensures(implies(response.resultCode == 0 and ka != 0,
                    isa(self._pingReq.timer, 'LoopingCall') and self._pingReq.timer.lc_running
                    and num(self._pingReq.timer.lc_interval) == ka and self._pingReq.keepalive == ka
                    and not is_none(self._pingReq.alarm) and num(self._pingReq.alarm.t_delay) == ka))
    ensures(implies(response.resultCode == 0 and ka == 0, is_none(self._pingReq.timer) and is_none(self._pingReq.alarm)))
    # refused (every other return code, reserved ones included): idle again, Deferred fails, nothing written
    ensures(implies(response.resultCode != 0, self.state == self.IDLE and d.d_fired and not d.d_ok and is_exc(d.d_val)
                    and out(self) == old(out(self)) and is_none(self._pingReq.timer)))


# proof steps for conn_timers_ok across the accepted CONNACK (the facts the final state needs, stated where they are cheap)
@ghost_at('mqtt.client.base.MQTTBaseProtocol.handleCONNACK', after='self.mqttConnectionMade()')
def _():
    hint(request.deferred.d_owner == request)
    hint(is_int(request.alarm.t_status) and request.alarm.t_status == 1)
    hint(conn_timers_ok(self))
