"""C20: argument validation of the API entry points (setters and the _checkXxx helpers), C17: makeId."""
from pyvc.speclang import *
from specs.state import *


@contract('mqtt.client.base.MQTTBaseProtocol.setTimeout', props=['C20'])
def _(self: Ref['mqtt.client.base.MQTTBaseProtocol'], timeout: int):
    raises(ValueError, when=not (1 <= timeout <= 1024))
    modifies(self._initialT)
    ensures_raise(unchanged(self._initialT))
    ensures(self._initialT == timeout)


@contract('mqtt.client.base.MQTTBaseProtocol.setWindowSize', props=['C20', 'C10'])
def _(self: Ref['mqtt.client.base.MQTTBaseProtocol'], n: int):
    raises(ValueError, when=not (1 <= n <= 16))
    modifies(self._window)
    ensures_raise(unchanged(self._window))
    ensures(self._window == n)


@contract('mqtt.client.pubsubs.MQTTProtocol.setBandwith', props=['C20'])
def _(self: Ref['mqtt.client.pubsubs.MQTTProtocol'], bandwith: real, factor: real):
    raises(ValueError, when=bandwith <= 0 or factor <= 0)
    modifies(self._bandwith, self._factor)
    ensures_raise(unchanged(self._bandwith, self._factor))
    ensures(self._bandwith == bandwith and self._factor == factor)


@spec
def connect_args_bad(request: Ref['mqtt.pdu.CONNECT']) -> bool:
    return (not (0 <= request.willQoS and request.willQoS <= 2)
            or not (0 <= request.keepalive and request.keepalive <= 65535)
            or (request.version == v31 and strlen(request.clientId) > 23)
            or not (request.version == v31 or request.version == v311)
            or (is_str(request.willMessage) and is_none(request.willTopic))
            or (is_none(request.willMessage) and is_str(request.willTopic))
            or (is_none(request.username) and is_str(request.password)))


@spec
def connect_typed(request: Ref['mqtt.pdu.CONNECT']) -> bool:
    return (is_int(request.willQoS) and is_int(request.keepalive) and is_ver(request.version) and is_str(request.clientId)
            and (is_none(request.willMessage) or is_str(request.willMessage))
            and (is_none(request.willTopic) or is_str(request.willTopic))
            and (is_none(request.username) or is_str(request.username))
            and (is_none(request.password) or is_str(request.password))
            and is_bool(request.willRetain) and is_bool(request.cleanStart))


@contract('mqtt.client.base.MQTTBaseProtocol._checkConnect', props=['C20', 'C04'])
def _(self: Ref['mqtt.client.base.MQTTBaseProtocol'], request: Ref['mqtt.pdu.CONNECT']):
    requires(connect_typed(request))
    raises(ValueError, when=connect_args_bad(request))
    modifies()


@contract('mqtt.client.pubsubs.MQTTProtocol._checkPublish', props=['C20'])
def _(self: Ref['mqtt.client.pubsubs.MQTTProtocol'], request: Ref['mqtt.pdu.PUBLISH']):
    requires(is_int(request.qos) and not_foreign(self, request))
    raises(ValueError, when=not (0 <= request.qos <= 2))
    modifies()


@contract('mqtt.client.pubsubs.MQTTProtocol._checkSubscribe', props=['C20', 'C07'])
def _(self: Ref['mqtt.client.pubsubs.MQTTProtocol'], request: Ref['mqtt.pdu.SUBSCRIBE']):
    requires(wf_proto(self) and not_foreign(self, request))
    requires(is_list_si(request.topics) or is_str(request.topics) or is_int(request.topics) or is_none(request.topics) or is_pair_si(request.topics))
    ts = as_list_si(request.topics)
    raises(MQTTWindowError, when=len(self.factory.windowSubscribe[self.addr]) >= self._window)
    raises(TypeError, when=len(self.factory.windowSubscribe[self.addr]) < self._window and not is_list_si(request.topics))
    raises(ValueError, when=len(self.factory.windowSubscribe[self.addr]) < self._window and is_list_si(request.topics)
           and exists(lambda i: 0 <= i and i < len(ts) and not (0 <= ts[i][1] and ts[i][1] <= 2)))
    modifies()


@loop('mqtt.client.pubsubs.MQTTProtocol._checkSubscribe', 0)
def _():
    ts = as_list_si(request.topics)
    invariant(forall(lambda j: implies(0 <= j and j < idx, 0 <= ts[j][1] and ts[j][1] <= 2)))


@contract('mqtt.client.pubsubs.MQTTProtocol._checkUnsubscribe', props=['C20', 'C07'])
def _(self: Ref['mqtt.client.pubsubs.MQTTProtocol'], request: Ref['mqtt.pdu.UNSUBSCRIBE']):
    requires(wf_proto(self) and not_foreign(self, request))
    requires(is_list_str(request.topics) or is_str(request.topics) or is_int(request.topics) or is_none(request.topics) or is_pair_si(request.topics))
    raises(MQTTWindowError, when=len(self.factory.windowUnsubscribe[self.addr]) >= self._window)
    raises(TypeError, when=len(self.factory.windowUnsubscribe[self.addr]) < self._window and not is_list_str(request.topics))
    modifies()


# ---- C17: the identifier counter
@contract('mqtt.client.factory.MQTTFactory.makeId', props=['C17'])
def _(self: Ref['mqtt.client.factory.MQTTFactory']) -> int:
    requires(is_int(self.id) and 0 <= self.id <= 65535)
    modifies(self.id)
    ensures(1 <= result and result <= 65535)
    ensures(self.id == result)
    ensures(result == (old(self.id) + 1 if old(self.id) < 65535 else 1))


# C17, second half: a fresh identifier must not be carried by an unfinished request of the same factory.
# makeId never looks at what is in use, so this clause FAILS after the counter wraps (known finding D15):
# counter-model self.id = k-1 with k a key of a publish window.
@contract('mqtt.client.factory.MQTTFactory.makeId', name='unique', callsite=False, props=['C17'])
def _(self: Ref['mqtt.client.factory.MQTTFactory'], addr: Obj):
    requires(is_int(self.id) and 0 <= self.id <= 65535)
    requires(isa(self.windowPublish, 'dict') and contains(self.windowPublish, addr) and isa(self.windowPublish[addr], 'dict'))
    modifies(self.id)
    ensures(not contains(self.windowPublish[addr], self.id))
