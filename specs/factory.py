"""C11 / C12 / C19 and the base case of the invariant: MQTTFactory.buildProtocol and the protocol constructors."""
from pyvc.speclang import *
from specs.wire import *
from specs.state import *
from specs.inv import *
from specs.acks import *
from specs.connection import *
from specs.api_entry import *


@spec
def idle_pub(r: Ref['mqtt.pdu.PUBLISH']) -> bool:
    """a QoS 1/2 PUBLISH left in the window by an earlier connection: no timer"""
    return (isa(r, 'mqtt.pdu.PUBLISH') and is_int(r.msgId) and 1 <= r.msgId and r.msgId <= 65535
            and is_int(r.qos) and 1 <= r.qos and r.qos <= 2 and is_bytes(r.encoded) and len(as_bytes(r.encoded)) >= 1 and enc_ok(r)
            and is_bool(r.retain) and is_str(r.topic) and is_bool(r.dup) and deferred_pending(r) and is_int(r.retries)
            and isa(r.interval, 'mqtt.client.interval.IntervalLinear') and wf_linear(r.interval) and is_none(r.alarm))


@spec
def idle_rel(r: Ref['mqtt.pdu.PUBREL']) -> bool:
    return (isa(r, 'mqtt.pdu.PUBREL') and is_int(r.msgId) and 1 <= r.msgId and r.msgId <= 65535
            and is_bytes(r.encoded) and len(as_bytes(r.encoded)) >= 1 and enc_ok(r) and deferred_pending(r) and is_int(r.retries)
            and isa(r.interval, 'mqtt.client.interval.Interval') and wf_interval(r.interval) and is_none(r.alarm))


@spec
def fwf(f: Ref['mqtt.client.factory.MQTTFactory']) -> bool:
    """the factory's six per-address tables are six different dicts"""
    return (is_int(f.profile) and is_int(f.id) and 0 <= f.id and f.id <= 65535
            and isa(f.queuePublishTx, 'dict') and isa(f.windowPublish, 'dict') and isa(f.windowPubRelease, 'dict')
            and isa(f.windowPubRx, 'dict') and isa(f.windowSubscribe, 'dict') and isa(f.windowUnsubscribe, 'dict')
            and as_ref(f.queuePublishTx) != as_ref(f.windowPublish) and as_ref(f.queuePublishTx) != as_ref(f.windowPubRelease)
            and as_ref(f.queuePublishTx) != as_ref(f.windowPubRx) and as_ref(f.queuePublishTx) != as_ref(f.windowSubscribe)
            and as_ref(f.queuePublishTx) != as_ref(f.windowUnsubscribe) and as_ref(f.windowPublish) != as_ref(f.windowPubRelease)
            and as_ref(f.windowPublish) != as_ref(f.windowPubRx) and as_ref(f.windowPublish) != as_ref(f.windowSubscribe)
            and as_ref(f.windowPublish) != as_ref(f.windowUnsubscribe) and as_ref(f.windowPubRelease) != as_ref(f.windowPubRx)
            and as_ref(f.windowPubRelease) != as_ref(f.windowSubscribe) and as_ref(f.windowPubRelease) != as_ref(f.windowUnsubscribe)
            and as_ref(f.windowPubRx) != as_ref(f.windowSubscribe) and as_ref(f.windowPubRx) != as_ref(f.windowUnsubscribe)
            and as_ref(f.windowSubscribe) != as_ref(f.windowUnsubscribe))


@spec
def session_at_rest(f: Ref['mqtt.client.factory.MQTTFactory'], a: Obj) -> bool:
    """what a lost connection leaves behind for address a (if anything): windows without timers, no pending
    SUBSCRIBE/UNSUBSCRIBE, inner containers that are objects of their own"""
    return (implies(contains(f.windowPublish, a),
                    isa(f.windowPublish[a], 'dict')
                    and forall(lambda k: implies(contains(f.windowPublish[a], k), idle_pub(f.windowPublish[a][k]) and f.windowPublish[a][k].msgId == k and f.windowPublish[a][k].g_addr == a)))
            and implies(contains(f.windowPubRelease, a),
                        isa(f.windowPubRelease[a], 'dict')
                        and forall(lambda k: implies(contains(f.windowPubRelease[a], k), idle_rel(f.windowPubRelease[a][k]) and f.windowPubRelease[a][k].msgId == k and f.windowPubRelease[a][k].g_addr == a)))
            and implies(contains(f.windowPubRx, a),
                        isa(f.windowPubRx[a], 'dict')
                        and forall(lambda k: implies(contains(f.windowPubRx[a], k), rx_ok(f.windowPubRx[a][k]) and f.windowPubRx[a][k].msgId == k and f.windowPubRx[a][k].g_addr == a)))
            and implies(contains(f.windowSubscribe, a),
                        isa(f.windowSubscribe[a], 'dict') and forall(lambda k: not contains(f.windowSubscribe[a], k)))
            and implies(contains(f.windowUnsubscribe, a),
                        isa(f.windowUnsubscribe[a], 'dict') and forall(lambda k: not contains(f.windowUnsubscribe[a], k)))
            and implies(contains(f.queuePublishTx, a),
                        isa(f.queuePublishTx[a], 'deque') and dq_head(f.queuePublishTx[a]) <= dq_tail(f.queuePublishTx[a])
                        and forall(lambda j: implies(dq_head(f.queuePublishTx[a]) <= j and j < dq_tail(f.queuePublishTx[a]),
                                                     queued_ok(dq_at(f.queuePublishTx[a], j)) and dq_at(f.queuePublishTx[a], j).q_pos == j and dq_at(f.queuePublishTx[a], j).g_addr == a))))


@spec
def rest_distinct(f: Ref['mqtt.client.factory.MQTTFactory'], a: Obj) -> bool:
    """containers already registered for address a are pairwise different objects, none of them one of the six tables"""
    return (implies(contains(f.windowPublish, a) and contains(f.windowPubRelease, a), f.windowPublish[a] != f.windowPubRelease[a])
            and implies(contains(f.windowPublish, a) and contains(f.windowPubRx, a), f.windowPublish[a] != f.windowPubRx[a])
            and implies(contains(f.windowPublish, a) and contains(f.windowSubscribe, a), f.windowPublish[a] != f.windowSubscribe[a])
            and implies(contains(f.windowPublish, a) and contains(f.windowUnsubscribe, a), f.windowPublish[a] != f.windowUnsubscribe[a])
            and implies(contains(f.windowPubRelease, a) and contains(f.windowPubRx, a), f.windowPubRelease[a] != f.windowPubRx[a])
            and implies(contains(f.windowPubRelease, a) and contains(f.windowSubscribe, a), f.windowPubRelease[a] != f.windowSubscribe[a])
            and implies(contains(f.windowPubRelease, a) and contains(f.windowUnsubscribe, a), f.windowPubRelease[a] != f.windowUnsubscribe[a])
            and implies(contains(f.windowPubRx, a) and contains(f.windowSubscribe, a), f.windowPubRx[a] != f.windowSubscribe[a])
            and implies(contains(f.windowPubRx, a) and contains(f.windowUnsubscribe, a), f.windowPubRx[a] != f.windowUnsubscribe[a])
            and implies(contains(f.windowSubscribe, a) and contains(f.windowUnsubscribe, a), f.windowSubscribe[a] != f.windowUnsubscribe[a])
            and implies(contains(f.windowPublish, a), rest_not_outer(f, f.windowPublish[a]))
            and implies(contains(f.windowPubRelease, a), rest_not_outer(f, f.windowPubRelease[a]))
            and implies(contains(f.windowPubRx, a), rest_not_outer(f, f.windowPubRx[a]))
            and implies(contains(f.windowSubscribe, a), rest_not_outer(f, f.windowSubscribe[a]))
            and implies(contains(f.windowUnsubscribe, a), rest_not_outer(f, f.windowUnsubscribe[a])))


@spec
def rest_not_outer(f: Ref['mqtt.client.factory.MQTTFactory'], d: Ref['dict']) -> bool:
    return (d != as_ref(f.queuePublishTx) and d != as_ref(f.windowPublish) and d != as_ref(f.windowPubRelease)
            and d != as_ref(f.windowPubRx) and d != as_ref(f.windowSubscribe) and d != as_ref(f.windowUnsubscribe))


@contract('mqtt.client.factory.MQTTFactory.buildProtocol', props=['C11', 'C12', 'C19', 'C14', 'C13'], split=['prof'], deadline=900)
def _(self: Ref['mqtt.client.factory.MQTTFactory'], addr: Obj, prof: int) -> Any:
    """prof (0,1,2) is a ghost selector of the profile value 1,2,3 so that each profile is a unit of its own"""
    requires(fwf(self) and self.profile == prof + 1)
    requires(session_at_rest(self, addr) and rest_distinct(self, addr))
    # the six containers of an address are always created together (by this very function)
    requires(contains(self.queuePublishTx, addr) == contains(self.windowPublish, addr)
             and contains(self.windowPubRelease, addr) == contains(self.windowPublish, addr)
             and contains(self.windowPubRx, addr) == contains(self.windowPublish, addr)
             and contains(self.windowSubscribe, addr) == contains(self.windowPublish, addr)
             and contains(self.windowUnsubscribe, addr) == contains(self.windowPublish, addr))
    modifies(self.protocol, dict_rows(self.queuePublishTx, self.windowPublish, self.windowPubRelease, self.windowPubRx,
                                       self.windowSubscribe, self.windowUnsubscribe), allocates())
    ensures(isa(result, 'mqtt.client.pubsubs.MQTTProtocol') or isa(result, 'mqtt.client.publisher.MQTTProtocol')
            or isa(result, 'mqtt.client.subscriber.MQTTProtocol'))
    ensures(self.protocol == result and result.factory == self and result.addr == addr and is_fresh(result))
    ensures(contains(self.queuePublishTx, addr) and contains(self.windowPublish, addr) and contains(self.windowPubRelease, addr)
            and contains(self.windowPubRx, addr) and contains(self.windowSubscribe, addr) and contains(self.windowUnsubscribe, addr))
    # the session left behind for this address is re-attached as it is; otherwise empty containers are created
    ensures(implies(old(contains(self.windowPublish, addr)), self.windowPublish[addr] == old(self.windowPublish[addr])))
    ensures(implies(old(contains(self.windowPubRelease, addr)), self.windowPubRelease[addr] == old(self.windowPubRelease[addr])))
    ensures(implies(old(contains(self.queuePublishTx, addr)), self.queuePublishTx[addr] == old(self.queuePublishTx[addr])))
    ensures(implies(not old(contains(self.windowPublish, addr)), forall(lambda k: not contains(self.windowPublish[addr], k))))
    ensures(implies(not old(contains(self.windowPubRelease, addr)), forall(lambda k: not contains(self.windowPubRelease[addr], k))))
    ensures(implies(not old(contains(self.queuePublishTx, addr)), dq_len(self.queuePublishTx[addr]) == 0))
    # base case of the state invariant (everything but the transport, which Twisted attaches with makeConnection)
    ensures(result.state == result.IDLE and wf_states(result) and ping_ok(result) and callbacks_ok(result) and is_none(result.g_firing)
            and is_unset(result.connReq))
    ensures(wf_containers(result) and distinct_containers(result))
    ensures(inv_W(result) and inv_R(result) and inv_S(result) and inv_U(result) and inv_X(result) and inv_Q(result))
    ensures(conn_timers_ok(result))
    ensures(forall(lambda k: not contains(S(result), k)) and forall(lambda k: not contains(U(result), k)))
    ensures(is_none(result._pingReq.timer) and is_none(result._pingReq.alarm))
    # only the rows of this address are touched in the six tables (C19)
    ensures(forall(lambda b: implies(b != key_of(addr), contains(self.windowPublish, b) == old(contains(self.windowPublish, b))
                                     and self.windowPublish[b] == old(self.windowPublish[b]))))
    ensures(forall(lambda b: implies(b != key_of(addr), contains(self.queuePublishTx, b) == old(contains(self.queuePublishTx, b))
                                     and self.queuePublishTx[b] == old(self.queuePublishTx[b]))))


# ghost state starts out at construction
@ghost_at('mqtt.client.base.MQTTBaseProtocol.__init__', after='self.onDisconnection = None')
def _():
    gset(self.g_firing, None)
    gset(self.g_dispatched, lb())


# ---- the link between two connections to one address: what connectionLost guarantees is what buildProtocol requires
@lemma(props=['C11', 'C12', 'C19'])
def rest_after_loss(self: Ref['mqtt.client.pubsubs.MQTTProtocol']):
    requires(lost_state(self))
    requires(is_int(self.factory.profile))      # set by MQTTFactory.__init__, in the keep-list of every protocol contract
    ensures(fwf(self.factory))
    ensures(session_at_rest(self.factory, self.addr))
    ensures(rest_distinct(self.factory, self.addr))


# ---- the reactor's side of the timer contracts: whenever a timer of one of these kinds is ACTIVE (so that the reactor
# may call it), the invariant that holds between entry points implies the precondition of its callback
@lemma(props=['C04', 'C13', 'C16'])
def connack_timeout_may_fire(self: Ref['mqtt.client.pubsubs.MQTTProtocol'], t: Ref['DelayedCall']):
    requires(is_obj(self.addr) and any_state(self))
    requires(isa(t, 'DelayedCall') and is_int(t.t_status) and t.t_status == 0 and t.t_owner == self and is_int(t.t_fn)
             and t.t_fn == fn('mqtt.client.base.MQTTBaseProtocol.doConnect.connectError') and is_ref(t.t_arg))
    # = the requires of the contract of doConnect.connectError (specs/connection.py) for request = t.t_arg
    ensures(isa(self.transport, 'Transport') and is_int(self.transport.tr_aborts))
    ensures(isa(t.t_arg.deferred, 'Deferred') and is_bool(t.t_arg.deferred.d_fired) and not t.t_arg.deferred.d_fired)
    ensures(is_ref(self.IDLE))


@lemma(props=['C15', 'C13', 'C16'])
def ping_timeout_may_fire(self: Ref['mqtt.client.pubsubs.MQTTProtocol']):
    requires(is_obj(self.addr) and any_state(self))
    # = the requires of the contract of doPingRequest.doPingError
    ensures(isa(self.transport, 'Transport') and is_int(self.transport.tr_aborts) and isa(self._pingReq, 'mqtt.pdu.PINGREQ'))
