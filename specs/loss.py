"""C11 / C12 / C13 / C07: connection loss (doConnectionLost, connectionLost)."""
from pyvc.speclang import *
from specs.wire import *
from specs.state import *
from specs.inv import *
from specs.retry import *
from specs.acks import *
from specs.session import *
from specs.connection import *


# ---- helper predicates over one window d (a dict reference); old() refers to the entry state of doConnectionLost
@spec
def keys_kept(d: Ref['dict']) -> bool:
    return forall(lambda k: contains(d, k) == old(contains(d, k)) and d[k] == old(d[k]))


@spec
def alarms_cleared(d: Ref['dict']) -> bool:
    """every entry's timer is cancelled and forgotten"""
    return (forall(lambda k: implies(contains(d, k), is_none(d[k].alarm)))
            and forall(lambda k: implies(old(contains(d, k)) and not old(is_none(d[k].alarm)),
                                         is_int(old(as_ref(d[k].alarm)).t_status) and old(as_ref(d[k].alarm)).t_status == 1)))


@spec
def alarms_progress(d: Ref['dict'], ks: Any, i: int) -> bool:
    """loop progress: entries before position i are cleared, the others still have their (ACTIVE or absent) timer"""
    return (forall(lambda k: implies(contains(d, k) and pos_of(ks, k) < i, is_none(d[k].alarm)))
            and forall(lambda k: implies(old(contains(d, k)) and not old(is_none(d[k].alarm)) and pos_of(ks, k) < i,
                                         is_int(old(as_ref(d[k].alarm)).t_status) and old(as_ref(d[k].alarm)).t_status == 1))
            and forall(lambda k: implies(contains(d, k) and pos_of(ks, k) >= i, d[k].alarm == old(d[k].alarm))))


@spec
def alarms_untouched(d: Ref['dict']) -> bool:
    return forall(lambda k: implies(contains(d, k), d[k].alarm == old(d[k].alarm)))


@spec
def all_failed(d: Ref['dict'], reason: Any) -> bool:
    """the window is empty and every Deferred it held has failed with the reason of the loss"""
    return (forall(lambda k: not contains(d, k))
            and forall(lambda k: implies(old(contains(d, k)), failed_with(old(d[k]), reason))))


@spec
def fail_progress(d: Ref['dict'], ks: Any, i: int, reason: Any) -> bool:
    return (forall(lambda k: implies(old(contains(d, k)) and pos_of(ks, k) < i, not contains(d, k) and failed_with(old(d[k]), reason)))
            and forall(lambda k: implies(old(contains(d, k)) and pos_of(ks, k) >= i, contains(d, k) and d[k] == old(d[k])))
            and forall(lambda k: implies(not old(contains(d, k)), not contains(d, k))))


KEEP_LOST = KEEP + ['deferred', 'msgId', 'retries', 'qos', 'topic', 'retain', 'payload', 'encoded', 'dup', 'interval', 't_fn', 't_arg',
                    't_owner', 't_delay', 'q_pos', 'd_owner', '_value', '_k', 'initial', 'factor', 'bandwith', 'maxDelay', 'tr_out',
                    '$dq', '$dqt']


@spec
def cancelled_stay() -> bool:
    """a timer that had been cancelled stays cancelled"""
    return forall(lambda t: implies(old(is_int(obj_at(t).t_status) and obj_at(t).t_status == 1),
                                    is_int(obj_at(t).t_status) and obj_at(t).t_status == 1))


@spec
def ping_untouched(self: Ref['mqtt.client.pubsubs.MQTTProtocol']) -> bool:
    return unchanged(self._pingReq.alarm) and cancelled_stay()


@spec
def core(self: Ref['mqtt.client.pubsubs.MQTTProtocol']) -> bool:
    return (is_obj(self.addr) and wf_proto(self) and distinct_containers(self) and inv_W(self) and inv_R(self) and inv_S(self)
            and inv_U(self) and inv_X(self) and inv_Q(self) and conn_timers_ok(self))


@contract('mqtt.client.pubsubs.MQTTProtocol.doConnectionLost', props=['C11', 'C12', 'C13', 'C07', 'C05', 'C16', 'C06'], deadline=1500)
def _(self: Ref['mqtt.client.pubsubs.MQTTProtocol'], reason: Any):
    requires(is_obj(self.addr))
    requires(inv(self) and is_none(self.g_firing) and is_list_bytes(self.transport.tr_out))
    requires(is_exc(reason) or is_obj(reason))
    requires(isa(self._pingReq, 'mqtt.pdu.PINGREQ'))
    modifies(all_but(KEEP_LOST))
    ensures(inv(self))
    ensures(out(self) == old(out(self)))
    ensures(ping_untouched(self))
    # no retry timer survives the loss
    ensures(alarms_cleared(W(self)) and alarms_cleared(R(self)))
    # pending SUBSCRIBE / UNSUBSCRIBE requests fail with the reason in either session mode
    ensures(all_failed(S(self), reason) and all_failed(U(self), reason))
    ensures(forall(lambda k: implies(old(contains(S(self), k)) and not old(is_none(S(self)[k].alarm)),
                                     old(as_ref(S(self)[k].alarm)).t_status == 1)))
    ensures(forall(lambda k: implies(old(contains(U(self), k)) and not old(is_none(U(self)[k].alarm)),
                                     old(as_ref(U(self)[k].alarm)).t_status == 1)))
    # clean session: every publish still pending (sent, released or held back) fails with the reason; nothing is kept
    ensures(implies(self._cleanStart, all_failed(W(self), reason) and all_failed(R(self), reason) and dq_len(Q(self)) == 0
                    and forall(lambda j: implies(old(dq_head(Q(self))) <= j and j < old(dq_tail(Q(self))) and old(dq_at(Q(self), j)).qos > 0,
                                                 failed_with(old(dq_at(Q(self), j)), reason)))))
    # persistent session: nothing fails, everything is kept for the next connection
    ensures(implies(not self._cleanStart, keys_kept(W(self)) and keys_kept(R(self))
                    and dq_head(Q(self)) == old(dq_head(Q(self))) and dq_tail(Q(self)) == old(dq_tail(Q(self)))))
    # the inbound QoS 2 window (messages held until PUBREL) survives every loss, whatever the session mode and whether or
    # not connect() was ever called on this protocol (C06: exactly once per exchange, also across a reconnect)
    ensures(keys_kept(X(self)))


@loop('mqtt.client.pubsubs.MQTTProtocol.doConnectionLost', 0)
def _():
    invariant(is_obj(self.addr))
    invariant(core(self))
    invariant(ping_untouched(self))
    invariant(keys_kept(X(self)))
    invariant(keys_kept(W(self)) and keys_kept(R(self)) and keys_kept(S(self)) and keys_kept(U(self)))
    invariant(alarms_progress(S(self), keys, idx))
    invariant(alarms_untouched(U(self)) and alarms_untouched(W(self)) and alarms_untouched(R(self)))


@loop('mqtt.client.pubsubs.MQTTProtocol.doConnectionLost', 1)
def _():
    invariant(is_obj(self.addr))
    invariant(core(self))
    invariant(ping_untouched(self))
    invariant(keys_kept(X(self)))
    invariant(keys_kept(W(self)) and keys_kept(R(self)) and keys_kept(S(self)) and keys_kept(U(self)))
    invariant(alarms_cleared(S(self)))
    invariant(alarms_progress(U(self), keys, idx))
    invariant(alarms_untouched(W(self)) and alarms_untouched(R(self)))


@loop('mqtt.client.pubsubs.MQTTProtocol.doConnectionLost', 2)
def _():
    invariant(is_obj(self.addr))
    invariant(core(self))
    invariant(ping_untouched(self))
    invariant(keys_kept(X(self)))
    invariant(keys_kept(W(self)) and keys_kept(R(self)) and keys_kept(S(self)) and keys_kept(U(self)))
    invariant(alarms_cleared(S(self)) and alarms_cleared(U(self)))
    invariant(alarms_progress(W(self), keys, idx))
    invariant(alarms_untouched(R(self)))


@loop('mqtt.client.pubsubs.MQTTProtocol.doConnectionLost', 3)
def _():
    invariant(is_obj(self.addr))
    invariant(core(self))
    invariant(ping_untouched(self))
    invariant(keys_kept(X(self)))
    invariant(keys_kept(W(self)) and keys_kept(R(self)) and keys_kept(S(self)) and keys_kept(U(self)))
    invariant(alarms_cleared(S(self)) and alarms_cleared(U(self)) and alarms_cleared(W(self)))
    invariant(alarms_progress(R(self), keys, idx))


@loop('mqtt.client.pubsubs.MQTTProtocol.doConnectionLost', 4)
def _():
    invariant(is_obj(self.addr))
    invariant(core(self))
    invariant(ping_untouched(self))
    invariant(keys_kept(X(self)))
    invariant(keys_kept(W(self)) and keys_kept(R(self)) and keys_kept(U(self)))
    invariant(alarms_cleared(S(self)) and alarms_cleared(U(self)) and alarms_cleared(W(self)) and alarms_cleared(R(self)))
    invariant(fail_progress(S(self), keys, idx, reason))


@loop('mqtt.client.pubsubs.MQTTProtocol.doConnectionLost', 5)
def _():
    invariant(is_obj(self.addr))
    invariant(core(self))
    invariant(ping_untouched(self))
    invariant(keys_kept(X(self)))
    invariant(keys_kept(W(self)) and keys_kept(R(self)))
    invariant(alarms_cleared(S(self)) and alarms_cleared(U(self)) and alarms_cleared(W(self)) and alarms_cleared(R(self)))
    invariant(all_failed(S(self), reason))
    invariant(fail_progress(U(self), keys, idx, reason))


@loop('mqtt.client.pubsubs.MQTTProtocol.doConnectionLost', 6)
def _():
    invariant(is_obj(self.addr))
    invariant(core(self))
    invariant(ping_untouched(self))
    invariant(keys_kept(X(self)))
    invariant(Q(self) == old(Q(self)))      # (local-free: the code's `queue` was read from it before the loop)
    invariant(alarms_cleared(S(self)) and alarms_cleared(U(self)) and alarms_cleared(W(self)) and alarms_cleared(R(self)))
    invariant(all_failed(S(self), reason) and all_failed(U(self), reason) and all_failed(W(self), reason) and all_failed(R(self), reason))
    invariant(dq_tail(Q(self)) == old(dq_tail(Q(self))) and old(dq_head(Q(self))) <= dq_head(Q(self)) and dq_head(Q(self)) <= dq_tail(Q(self)))
    invariant(forall(lambda j: implies(dq_head(Q(self)) <= j and j < dq_tail(Q(self)), dq_at(Q(self), j) == old(dq_at(Q(self), j)))))
    invariant(forall(lambda j: implies(old(dq_head(Q(self))) <= j and j < dq_head(Q(self)) and old(dq_at(Q(self), j)).qos > 0,
                                       failed_with(old(dq_at(Q(self), j)), reason))))
    decreases(dq_len(Q(self)))


@contract('mqtt.client.base.MQTTBaseProtocol.connectionLost', props=['C04', 'C11', 'C12', 'C13', 'C15', 'C07', 'C18', 'C16', 'C06'],
          classes=PROFILES, deadline=1500)
def _(self: Ref['mqtt.client.pubsubs.MQTTProtocol'], reason: Any):
    requires(is_obj(self.addr))
    requires(any_state(self))
    requires(is_exc(reason) or is_obj(reason))
    tm = as_ref(self._pingReq.timer)
    al = as_ref(self._pingReq.alarm)
    modifies(all_but(KEEP_CONN))
    ensures(any_state(self))
    # idle again; no keepalive activity outlives the connection
    ensures(self.state == self.IDLE and is_none(self._pingReq.timer) and is_none(self._pingReq.alarm))
    ensures(implies(not old(is_none(self._pingReq.timer)), is_bool(tm.lc_running) and not tm.lc_running))
    ensures(implies(not old(is_none(self._pingReq.alarm)), is_int(al.t_status) and al.t_status == 1))
    ensures(out(self) == old(out(self)))
    # pending requests are failed or preserved as the session mode demands (contract of doConnectionLost) ...
    ensures(alarms_cleared(W(self)) and alarms_cleared(R(self)) and all_failed(S(self), reason) and all_failed(U(self), reason))
    ensures(implies(self._cleanStart, all_failed(W(self), reason) and all_failed(R(self), reason) and dq_len(Q(self)) == 0))
    ensures(implies(not self._cleanStart, keys_kept(W(self)) and keys_kept(R(self))
                    and dq_head(Q(self)) == old(dq_head(Q(self))) and dq_tail(Q(self)) == old(dq_tail(Q(self)))))
    # what is left behind is what buildProtocol requires of a session at rest (lemma rest_after_loss, specs/factory.py)
    ensures(lost_state(self))
    # ... and only then is the onDisconnection notification scheduled, once, with the reason
    ensures(implies(is_func(self.onDisconnection),
                    isa(last_alloc(), 'DelayedCall') and is_fresh(last_alloc()) and last_alloc().t_status == 0
                    and last_alloc().t_fn == self.onDisconnection and last_alloc().t_arg == reason
                    and num(last_alloc().t_delay) * 10 == 1))
    # the inbound QoS 2 window survives the loss untouched (C06, see doConnectionLost)
    ensures(keys_kept(X(self)))
