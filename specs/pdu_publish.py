"""Contracts of mqtt.pdu.PUBLISH (C01, C02, C06, C16)."""
from pyvc.speclang import *
from specs.wire import *
from specs.lemmas import *


@contract('mqtt.pdu.PUBLISH.encode', props=['C01', 'C02', 'C18', 'C20'])
def _(self: Ref['mqtt.pdu.PUBLISH']) -> Bytes:
    requires(is_int(self.qos) and 0 <= self.qos <= 2)
    requires(is_bool(self.retain) and is_bool(self.dup) and is_str(self.topic))
    requires(is_none(self.msgId) or is_int(self.msgId))
    requires(self.qos == 0 or is_int(self.msgId))
    requires(is_str(self.payload) or is_bytes(self.payload) or is_int(self.payload) or is_none(self.payload) or is_real(self.payload) or is_bool(self.payload))
    raises(ValueError, when=not encodable(self.topic))
    raises(ValueError, when=encodable(self.topic) and len(utf8(self.topic)) > 65535)
    raises(ValueError, when=self.qos > 0 and not (0 <= self.msgId <= 65535))
    raises(TypeError, when=not (is_str(self.payload) or is_bytes(self.payload)))
    raises(ValueError, when=is_str(self.payload) and not encodable(self.payload))
    raises(ValueError, when=encodable(self.topic) and len(pub_body(self.qos, self.topic, self.msgId, utf8(self.payload) if is_str(self.payload) else as_bytes(self.payload))) > 268435455)
    modifies(self.encoded)
    ensures_raise(unchanged(self.encoded))
    ensures(result == sPUBLISH(self.dup and self.qos > 0, self.qos, self.retain, self.topic, self.msgId,
                               utf8(self.payload) if is_str(self.payload) else as_bytes(self.payload)))
    ensures(self.encoded == result)


@contract('mqtt.pdu.PUBLISH.decode', name='roundtrip', callsite=False, props=['C01', 'C02'])
def _(self: Ref['mqtt.pdu.PUBLISH'], packet: Bytes, dup: bool, qos: int, retain: bool, topic: Str, id: int, payload: Bytes):
    requires(0 <= qos <= 2 and 0 <= id <= 65535)
    requires(encodable(topic) and len(utf8(topic)) <= 65535)
    requires(packet == sPUBLISH(dup, qos, retain, topic, id, payload))
    use(frame_body(packet[0], pub_body(qos, topic, id, payload)))
    modifies(self.encoded, self.dup, self.qos, self.retain, self.topic, self.msgId, self.payload)
    ensures(self.dup == dup and self.qos == qos and self.retain == retain)
    ensures(self.topic == topic)
    ensures(self.msgId == id if qos > 0 else is_none(self.msgId))
    ensures(self.payload == payload)
    ensures(self.encoded == packet)
