"""The representation invariant of a protocol and the per-address containers it serves (DESIGN.md 4.3).

inv(self) must hold between entry points (API calls, dataReceived, connectionLost, timer expiries); every entry
point is verified to preserve it from an arbitrary inv-state, which is what makes the step contracts hold after
every history (induction over run-to-completion steps).
"""
from pyvc.speclang import *
from specs.state import *
from specs.intervals import *

FN_PUBLISH_ERR = 'mqtt.client.pubsubs.MQTTProtocol._publishError'
FN_PUBREL_ERR = 'mqtt.client.pubsubs.MQTTProtocol._pubrelError'
FN_SUB_ERR = 'mqtt.client.pubsubs.MQTTProtocol._subscribeError'
FN_UNSUB_ERR = 'mqtt.client.pubsubs.MQTTProtocol._unsubscribeError'


@spec(opaque=True)
def dup_clear(b: Bytes) -> bool:
    """the DUP flag (bit 3 of the first byte) is not set (opaque: unfolded only where bytes are produced)"""
    return (b[0] // 8) % 2 == 0


@spec(opaque=True)
def same_packet(now: Bytes, before: Bytes) -> bool:
    """the same packet bytes, except that the DUP flag (bit 3 of the first byte) may have been set"""
    return (len(now) == len(before) and now[1:] == before[1:]
            and (now[0] == before[0] or (now[0] == before[0] + 8 and (before[0] // 8) % 2 == 0)))


@spec
def enc_ok(r: Ref['obj']) -> bool:
    """I.enc: the stored bytes of a request are still the packet fixed when it was encoded (ghost g_base, never
    written again), except that the DUP flag may have been set since"""
    return is_bytes(r.g_base) and same_packet(as_bytes(r.encoded), as_bytes(r.g_base))


@spec
def base_fixed() -> bool:
    """two-state: a g_base / an address tag once set is never written again"""
    return (forall(lambda x: implies(old(is_bytes(obj_at(x).g_base)), unchanged(obj_at(x).g_base)))
            and forall(lambda x: implies(old(is_obj(obj_at(x).g_addr)), unchanged(obj_at(x).g_addr))))


@spec
def tagged(self: Ref['mqtt.client.pubsubs.MQTTProtocol'], r: Ref['obj']) -> bool:
    """C19: the request belongs to this protocol's broker address (ghost g_addr, set when the request enters the
    per-address state, never written again)"""
    return is_obj(r.g_addr) and r.g_addr == self.addr


@spec
def not_foreign(self: Ref['mqtt.client.pubsubs.MQTTProtocol'], r: Ref['obj']) -> bool:
    """untagged (fresh) or tagged with this protocol's address"""
    return not is_obj(r.g_addr) or r.g_addr == self.addr


@spec
def deferred_pending(r: Ref['obj']) -> bool:
    """r.deferred is an unfired Deferred owned by request r, exposing r's identifier"""
    return (isa(r.deferred, 'Deferred') and is_bool(r.deferred.d_fired) and not r.deferred.d_fired
            and r.deferred.d_owner == r and r.deferred.msgId == r.msgId)


@spec
def alarm_ok(self: Ref['mqtt.client.pubsubs.MQTTProtocol'], r: Ref['obj'], f: int) -> bool:
    """r.alarm is None, or the single retry timer of r, calling f(r) on self: ACTIVE, or just CALLED by the reactor
    when r is the request whose expiry is being handled right now (ghost self.g_firing)"""
    return (is_none(r.alarm) or
            (isa(r.alarm, 'DelayedCall') and is_int(r.alarm.t_status)
             and (r.alarm.t_status == 0 or (r.alarm.t_status == 2 and self.g_firing == r))
             and is_int(r.alarm.t_fn) and r.alarm.t_fn == f
             and r.alarm.t_owner == self and r.alarm.t_arg == r))


@spec
def pub_ok(self: Ref['mqtt.client.pubsubs.MQTTProtocol'], r: Ref['mqtt.pdu.PUBLISH']) -> bool:
    """a QoS 1/2 PUBLISH request awaiting its first acknowledgement"""
    return (isa(r, 'mqtt.pdu.PUBLISH') and is_int(r.msgId) and 1 <= r.msgId and r.msgId <= 65535
            and is_int(r.qos) and 1 <= r.qos and r.qos <= 2 and is_bytes(r.encoded) and len(as_bytes(r.encoded)) >= 1 and enc_ok(r)
            and is_bool(r.retain) and is_str(r.topic) and is_bool(r.dup)
            and deferred_pending(r) and is_int(r.retries)
            and isa(r.interval, 'mqtt.client.interval.IntervalLinear') and wf_linear(r.interval)
            and alarm_ok(self, r, fn('mqtt.client.pubsubs.MQTTProtocol._publishError')) and tagged(self, r))


@spec
def rel_ok(self: Ref['mqtt.client.pubsubs.MQTTProtocol'], r: Ref['mqtt.pdu.PUBREL']) -> bool:
    """a PUBREL awaiting PUBCOMP; it carries the Deferred of the publish() call"""
    return (isa(r, 'mqtt.pdu.PUBREL') and is_int(r.msgId) and 1 <= r.msgId and r.msgId <= 65535
            and is_bytes(r.encoded) and len(as_bytes(r.encoded)) >= 1 and enc_ok(r)
            and deferred_pending(r) and is_int(r.retries)
            and isa(r.interval, 'mqtt.client.interval.Interval') and wf_interval(r.interval)
            and alarm_ok(self, r, fn('mqtt.client.pubsubs.MQTTProtocol._pubrelError')) and tagged(self, r))


@spec
def sub_ok(self: Ref['mqtt.client.pubsubs.MQTTProtocol'], r: Ref['mqtt.pdu.SUBSCRIBE']) -> bool:
    return (isa(r, 'mqtt.pdu.SUBSCRIBE') and is_int(r.msgId) and 1 <= r.msgId and r.msgId <= 65535
            and is_bytes(r.encoded) and len(as_bytes(r.encoded)) >= 1 and enc_ok(r) and deferred_pending(r)
            and isa(r.interval, 'mqtt.client.interval.Interval') and wf_interval(r.interval)
            and alarm_ok(self, r, fn('mqtt.client.pubsubs.MQTTProtocol._subscribeError')) and tagged(self, r))


@spec
def unsub_ok(self: Ref['mqtt.client.pubsubs.MQTTProtocol'], r: Ref['mqtt.pdu.UNSUBSCRIBE']) -> bool:
    return (isa(r, 'mqtt.pdu.UNSUBSCRIBE') and is_int(r.msgId) and 1 <= r.msgId and r.msgId <= 65535
            and is_bytes(r.encoded) and len(as_bytes(r.encoded)) >= 1 and enc_ok(r) and deferred_pending(r)
            and isa(r.interval, 'mqtt.client.interval.Interval') and wf_interval(r.interval)
            and alarm_ok(self, r, fn('mqtt.client.pubsubs.MQTTProtocol._unsubscribeError')) and tagged(self, r))


@spec
def rx_ok(r: Ref['mqtt.pdu.PUBLISH']) -> bool:
    """an inbound QoS 2 PUBLISH held until its PUBREL"""
    return (isa(r, 'mqtt.pdu.PUBLISH') and is_int(r.msgId) and 0 <= r.msgId and r.msgId <= 65535 and r.qos == 2
            and is_str(r.topic) and is_bytes(r.payload) and is_bool(r.dup) and is_bool(r.retain)
            and is_unset(r.deferred) and is_unset(r.alarm) and is_bytes(r.encoded))


@spec
def queued_ok(r: Ref['mqtt.pdu.PUBLISH']) -> bool:
    """a PUBLISH accepted by publish() and not yet transmitted"""
    return (isa(r, 'mqtt.pdu.PUBLISH') and is_bytes(r.encoded) and len(as_bytes(r.encoded)) >= 1
            and is_int(r.qos) and 0 <= r.qos and r.qos <= 2 and is_bool(r.retain) and is_str(r.topic) and is_bool(r.dup)
            and isa(r.deferred, 'Deferred') and is_unset(r.alarm)
            and not r.dup and dup_clear(as_bytes(r.encoded)) and is_bytes(r.g_base) and r.encoded == r.g_base
            and ((r.qos == 0 and is_none(r.msgId) and is_none(r.interval))
                 or (r.qos > 0 and is_int(r.msgId) and 1 <= r.msgId and r.msgId <= 65535 and deferred_pending(r)
                     and is_int(r.retries) and isa(r.interval, 'mqtt.client.interval.IntervalLinear') and wf_linear(r.interval))))


@spec
def W(self: Ref['mqtt.client.pubsubs.MQTTProtocol']) -> Ref['dict']:
    return self.factory.windowPublish[self.addr]


@spec
def R(self: Ref['mqtt.client.pubsubs.MQTTProtocol']) -> Ref['dict']:
    return self.factory.windowPubRelease[self.addr]


@spec
def S(self: Ref['mqtt.client.pubsubs.MQTTProtocol']) -> Ref['dict']:
    return self.factory.windowSubscribe[self.addr]


@spec
def U(self: Ref['mqtt.client.pubsubs.MQTTProtocol']) -> Ref['dict']:
    return self.factory.windowUnsubscribe[self.addr]


@spec
def X(self: Ref['mqtt.client.pubsubs.MQTTProtocol']) -> Ref['dict']:
    return self.factory.windowPubRx[self.addr]


@spec
def Q(self: Ref['mqtt.client.pubsubs.MQTTProtocol']) -> Ref['deque']:
    return self.factory.queuePublishTx[self.addr]


@spec
def inv_W(self: Ref['mqtt.client.pubsubs.MQTTProtocol']) -> bool:
    return forall(lambda k: implies(contains(W(self), k), pub_ok(self, W(self)[k]) and W(self)[k].msgId == k))


@spec
def inv_R(self: Ref['mqtt.client.pubsubs.MQTTProtocol']) -> bool:
    return forall(lambda k: implies(contains(R(self), k), rel_ok(self, R(self)[k]) and R(self)[k].msgId == k))


@spec
def inv_S(self: Ref['mqtt.client.pubsubs.MQTTProtocol']) -> bool:
    return forall(lambda k: implies(contains(S(self), k), sub_ok(self, S(self)[k]) and S(self)[k].msgId == k))


@spec
def inv_U(self: Ref['mqtt.client.pubsubs.MQTTProtocol']) -> bool:
    return forall(lambda k: implies(contains(U(self), k), unsub_ok(self, U(self)[k]) and U(self)[k].msgId == k))


@spec
def inv_X(self: Ref['mqtt.client.pubsubs.MQTTProtocol']) -> bool:
    return forall(lambda k: implies(contains(X(self), k), rx_ok(X(self)[k]) and X(self)[k].msgId == k and tagged(self, X(self)[k])))


@spec
def inv_Q(self: Ref['mqtt.client.pubsubs.MQTTProtocol']) -> bool:
    return (dq_head(Q(self)) <= dq_tail(Q(self))
            and forall(lambda j: implies(dq_head(Q(self)) <= j and j < dq_tail(Q(self)),
                                         queued_ok(dq_at(Q(self), j)) and dq_at(Q(self), j).q_pos == j and tagged(self, dq_at(Q(self), j)))))


@spec
def not_an_outer(self: Ref['mqtt.client.pubsubs.MQTTProtocol'], d: Ref['dict']) -> bool:
    """d is none of the factory's six per-address tables themselves"""
    return (d != as_ref(self.factory.queuePublishTx) and d != as_ref(self.factory.windowPublish)
            and d != as_ref(self.factory.windowPubRelease) and d != as_ref(self.factory.windowPubRx)
            and d != as_ref(self.factory.windowSubscribe) and d != as_ref(self.factory.windowUnsubscribe))


@spec
def distinct_containers(self: Ref['mqtt.client.pubsubs.MQTTProtocol']) -> bool:
    return (not_an_outer(self, W(self)) and not_an_outer(self, R(self)) and not_an_outer(self, S(self))
            and not_an_outer(self, U(self)) and not_an_outer(self, X(self))
            and W(self) != R(self) and W(self) != S(self) and W(self) != U(self) and W(self) != X(self)
            and R(self) != S(self) and R(self) != U(self) and R(self) != X(self) and S(self) != U(self)
            and S(self) != X(self) and U(self) != X(self))


@spec
def no_other_timer(a: Any) -> bool:
    """two-state: the only timer created by this call (if any) is the one the value a refers to"""
    return forall(lambda t: implies(is_fresh(obj_at(t)) and isa(obj_at(t), 'DelayedCall'), is_ref(a) and obj_at(t) == as_ref(a)))


@spec
def own_ok(self: Ref['mqtt.client.pubsubs.MQTTProtocol']) -> bool:
    """I.own: every ACTIVE retry timer of this protocol is THE timer of an entry of the matching window - no stray
    timers (C13), and a retry callback can only fire for a request that is still awaiting its acknowledgement.
    NOT part of inv(self): it is not an invariant of the code.  _refillPublish (window[id] = request) and handlePUBREC
    (release[id] = reply) overwrite an entry that carries the same identifier, which makeId permits (finding D15);
    the overwritten entry's timer then stays ACTIVE without an entry (finding D15b, witnesses/D15b.py).  The timer
    callbacks, the four handlers that remove entries and the API calls were proved to preserve it; those two were not."""
    return forall(lambda t: implies(
        isa(obj_at(t), 'DelayedCall') and is_int(obj_at(t).t_status) and obj_at(t).t_status == 0 and obj_at(t).t_owner == self
        and is_int(obj_at(t).t_fn) and is_ref(obj_at(t).t_arg),
        implies(obj_at(t).t_fn == fn('mqtt.client.pubsubs.MQTTProtocol._publishError'),
                is_int(obj_at(t).t_arg.msgId) and contains(W(self), obj_at(t).t_arg.msgId)
                and W(self)[obj_at(t).t_arg.msgId] == obj_at(t).t_arg and obj_at(t).t_arg.alarm == obj_at(t))
        and implies(obj_at(t).t_fn == fn('mqtt.client.pubsubs.MQTTProtocol._pubrelError'),
                    is_int(obj_at(t).t_arg.msgId) and contains(R(self), obj_at(t).t_arg.msgId)
                    and R(self)[obj_at(t).t_arg.msgId] == obj_at(t).t_arg and obj_at(t).t_arg.alarm == obj_at(t))
        and implies(obj_at(t).t_fn == fn('mqtt.client.pubsubs.MQTTProtocol._subscribeError'),
                    is_int(obj_at(t).t_arg.msgId) and contains(S(self), obj_at(t).t_arg.msgId)
                    and S(self)[obj_at(t).t_arg.msgId] == obj_at(t).t_arg and obj_at(t).t_arg.alarm == obj_at(t))
        and implies(obj_at(t).t_fn == fn('mqtt.client.pubsubs.MQTTProtocol._unsubscribeError'),
                    is_int(obj_at(t).t_arg.msgId) and contains(U(self), obj_at(t).t_arg.msgId)
                    and U(self)[obj_at(t).t_arg.msgId] == obj_at(t).t_arg and obj_at(t).t_arg.alarm == obj_at(t))))


@spec
def conn_timers_ok(self: Ref['mqtt.client.pubsubs.MQTTProtocol']) -> bool:
    """every ACTIVE CONNACK-timeout timer of this protocol guards a CONNECT request whose Deferred has not fired: whenever
    the reactor can call connectError, its precondition holds (C16: no exception from a timer; C04: fires once)"""
    return forall(lambda t: implies(
        isa(obj_at(t), 'DelayedCall') and is_int(obj_at(t).t_status) and obj_at(t).t_status == 0 and obj_at(t).t_owner == self
        and is_int(obj_at(t).t_fn) and obj_at(t).t_fn == fn('mqtt.client.base.MQTTBaseProtocol.doConnect.connectError')
        and is_ref(obj_at(t).t_arg),
        isa(obj_at(t).t_arg, 'mqtt.pdu.CONNECT') and obj_at(t).t_arg.alarm == obj_at(t)
        and isa(obj_at(t).t_arg.deferred, 'Deferred') and is_bool(obj_at(t).t_arg.deferred.d_fired)
        and not obj_at(t).t_arg.deferred.d_fired and obj_at(t).t_arg.deferred.d_owner == obj_at(t).t_arg))


@spec
def inv(self: Ref['mqtt.client.pubsubs.MQTTProtocol']) -> bool:
    return (wf_proto(self) and distinct_containers(self)
            and inv_W(self) and inv_R(self) and inv_S(self) and inv_U(self) and inv_X(self) and inv_Q(self) and conn_timers_ok(self))


@spec
def alarms_set(self: Ref['mqtt.client.pubsubs.MQTTProtocol']) -> bool:
    """while connected every entry awaiting an acknowledgement is driven by its retry timer"""
    return (forall(lambda k: implies(contains(W(self), k), not is_none(W(self)[k].alarm)))
            and forall(lambda k: implies(contains(R(self), k), not is_none(R(self)[k].alarm)))
            and forall(lambda k: implies(contains(S(self), k), not is_none(S(self)[k].alarm)))
            and forall(lambda k: implies(contains(U(self), k), not is_none(U(self)[k].alarm))))


@spec
def same_containers(self: Ref['mqtt.client.pubsubs.MQTTProtocol']) -> bool:
    """the per-address windows and queue are still the same objects (only their contents may have changed)"""
    return (W(self) == old(W(self)) and R(self) == old(R(self)) and S(self) == old(S(self)) and U(self) == old(U(self))
            and X(self) == old(X(self)) and Q(self) == old(Q(self)))


@spec
def conn_untouched(self: Ref['mqtt.client.pubsubs.MQTTProtocol']) -> bool:
    """the CONNECT request of a handshake in progress (if any) keeps its timer and its Deferred"""
    return implies(old(isa(self.connReq, 'mqtt.pdu.CONNECT')), unchanged(self.connReq.alarm, self.connReq.deferred, self.connReq.keepalive))


@spec
def ping_untouched_by_handler(self: Ref['mqtt.client.pubsubs.MQTTProtocol']) -> bool:
    """the keepalive deadline (if any) is still the same timer in the same condition"""
    return (unchanged(self._pingReq.alarm)
            and implies(old(is_ref(self._pingReq.alarm)),
                        unchanged(self._pingReq.alarm.t_status, self._pingReq.alarm.t_fn, self._pingReq.alarm.t_owner, self._pingReq.alarm.t_arg)))


@spec
def lost_state(self: Ref['mqtt.client.pubsubs.MQTTProtocol']) -> bool:
    """the post-state of connectionLost (specs/loss.py) as far as the containers go"""
    return (is_obj(self.addr) and inv(self)
            and forall(lambda k: implies(contains(W(self), k), is_none(W(self)[k].alarm)))
            and forall(lambda k: implies(contains(R(self), k), is_none(R(self)[k].alarm)))
            and forall(lambda k: not contains(S(self), k)) and forall(lambda k: not contains(U(self), k)))


@spec
def no_new_fired() -> bool:
    """no Deferred that existed before has fired during this step"""
    return forall(lambda d: implies(old(is_bool(obj_at(d).d_fired) and not obj_at(d).d_fired), unchanged(obj_at(d).d_fired)))
