"""Contracts of SUBSCRIBE, UNSUBSCRIBE, SUBACK (C01, C02, C07)."""
from pyvc.speclang import *
from specs.wire import *
from specs.lemmas import *

# kind of the elements of `X.f = []` literals (Python lists are untyped; the engine's sequences are not)
EMPTY_LIST_KINDS = {('mqtt.pdu.SUBSCRIBE', 'topics'): 'pair_si', ('mqtt.pdu.UNSUBSCRIBE', 'topics'): 'str'}


# ---------------------------------------------------------------- SUBSCRIBE
@contract('mqtt.pdu.SUBSCRIBE.encode', props=['C01', 'C02', 'C07', 'C18', 'C20'])
def _(self: Ref['mqtt.pdu.SUBSCRIBE']) -> Bytes:
    requires(is_int(self.msgId) and is_list_si(self.topics))
    ts = as_list_si(self.topics)
    requires(forall(lambda i: implies(0 <= i and i < len(ts), 0 <= ts[i][1] and ts[i][1] <= 2)))
    raises(ValueError, when=not (0 <= self.msgId <= 65535))
    raises(ValueError, when=exists(lambda i: 0 <= i and i < len(ts) and (not encodable(ts[i][0]) or len(utf8(ts[i][0])) > 65535)))
    modifies(self.encoded)
    ensures_raise(unchanged(self.encoded))
    ensures(result == sSUBSCRIBE(self.msgId, ts))
    ensures(self.encoded == result)


@loop('mqtt.pdu.SUBSCRIBE.encode', 0)
def _():
    ts = as_list_si(self.topics)
    invariant(payload == sub_pl(ts, idx))
    invariant(forall(lambda j: implies(0 <= j and j < idx, encodable(ts[j][0]) and len(utf8(ts[j][0])) <= 65535)))


@contract('mqtt.pdu.SUBSCRIBE.decode', name='roundtrip', callsite=False, props=['C01', 'C02'])
def _(self: Ref['mqtt.pdu.SUBSCRIBE'], packet: Bytes, id: int, ts: ListSI):
    requires(0 <= id <= 65535)
    requires(forall(lambda i: implies(0 <= i and i < len(ts), 0 <= ts[i][1] and ts[i][1] <= 2 and encodable(ts[i][0]) and len(utf8(ts[i][0])) <= 65535)))
    requires(packet == sSUBSCRIBE(id, ts))
    use(frame_body(packet[0], u16(id) + sub_pl(ts, len(ts))))
    use(sub_split(ts, 0))
    modifies(self.encoded, self.msgId, self.topics)
    ensures(self.msgId == id)
    ensures(self.topics == ts)
    ensures(self.encoded == packet)


@loop('mqtt.pdu.SUBSCRIBE.decode', 1)
def _():
    cur = as_list_si(self.topics)
    k = len(cur)
    invariant(is_list_si(self.topics))
    invariant(0 <= k and k <= len(ts))
    invariant(cur == ts[:k])
    invariant(packet_remaining == sub_tail(ts, k))
    hint_back(topic == ts[k - 1][0])
    hint_back(qos == ts[k - 1][1])
    hint_back(ts[:k] == ts[:k - 1] + ts[k - 1:k])
    decreases(len(ts) - k)


# ---------------------------------------------------------------- UNSUBSCRIBE
@contract('mqtt.pdu.UNSUBSCRIBE.encode', props=['C01', 'C02', 'C07', 'C18', 'C20'])
def _(self: Ref['mqtt.pdu.UNSUBSCRIBE']) -> Bytes:
    requires(is_int(self.msgId) and is_list_str(self.topics))
    ts = as_list_str(self.topics)
    raises(ValueError, when=not (0 <= self.msgId <= 65535))
    raises(ValueError, when=exists(lambda i: 0 <= i and i < len(ts) and (not encodable(ts[i]) or len(utf8(ts[i])) > 65535)))
    modifies(self.encoded)
    ensures_raise(unchanged(self.encoded))
    ensures(result == sUNSUBSCRIBE(self.msgId, ts))
    ensures(self.encoded == result)


@loop('mqtt.pdu.UNSUBSCRIBE.encode', 0)
def _():
    ts = as_list_str(self.topics)
    invariant(payload == unsub_pl(ts, idx))
    invariant(forall(lambda j: implies(0 <= j and j < idx, encodable(ts[j]) and len(utf8(ts[j])) <= 65535)))


@contract('mqtt.pdu.UNSUBSCRIBE.decode', name='roundtrip', callsite=False, props=['C01', 'C02'])
def _(self: Ref['mqtt.pdu.UNSUBSCRIBE'], packet: Bytes, id: int, ts: ListStr):
    requires(0 <= id <= 65535)
    requires(forall(lambda i: implies(0 <= i and i < len(ts), encodable(ts[i]) and len(utf8(ts[i])) <= 65535)))
    requires(packet == sUNSUBSCRIBE(id, ts))
    use(frame_body(packet[0], u16(id) + unsub_pl(ts, len(ts))))
    use(unsub_split(ts, 0))
    modifies(self.encoded, self.msgId, self.topics)
    ensures(self.msgId == id)
    ensures(self.topics == ts)
    ensures(self.encoded == packet)


@loop('mqtt.pdu.UNSUBSCRIBE.decode', 1)
def _():
    cur = as_list_str(self.topics)
    k = len(cur)
    invariant(is_list_str(self.topics))
    invariant(0 <= k and k <= len(ts))
    invariant(cur == ts[:k])
    invariant(packet_remaining == unsub_tail(ts, k))
    hint_back(topic == ts[k - 1])
    hint_back(ts[:k] == ts[:k - 1] + ts[k - 1:k])
    decreases(len(ts) - k)


# ---------------------------------------------------------------- SUBACK
@contract('mqtt.pdu.SUBACK.encode', props=['C01', 'C02'])
def _(self: Ref['mqtt.pdu.SUBACK']) -> Bytes:
    requires(is_int(self.msgId) and is_list_ib(self.granted))
    gs = as_list_ib(self.granted)
    requires(forall(lambda i: implies(0 <= i and i < len(gs), 0 <= gs[i][0] and gs[i][0] <= 127)))
    raises(ValueError, when=not (0 <= self.msgId <= 65535))
    modifies(self.encoded)
    ensures(result == sSUBACK(self.msgId, gs))
    ensures(self.encoded == result)


@loop('mqtt.pdu.SUBACK.encode', 0)
def _():
    gs = as_list_ib(self.granted)
    invariant(payload == suback_pl(gs, idx))


@contract('mqtt.pdu.SUBACK.decode', name='roundtrip', callsite=False, props=['C01', 'C02'])
def _(self: Ref['mqtt.pdu.SUBACK'], packet: Bytes, id: int, gs: ListIB, i: int):
    """i is a free (universally quantified) index: the element-wise statement needs no quantifier"""
    requires(0 <= id <= 65535)
    requires(0 <= i and i < len(gs))
    requires(0 <= gs[i][0] and gs[i][0] <= 127)
    requires(packet == sSUBACK(id, gs))
    use(frame_body(packet[0], u16(id) + suback_pl(gs, len(gs))))
    use(suback_at(gs, len(gs), i))
    modifies(self.encoded, self.msgId, self.granted)
    ensures(self.msgId == id)
    ensures(len(as_list_ib(self.granted)) == len(gs))
    hint(body(packet)[2:] == suback_pl(gs, len(gs)))
    ensures(as_list_ib(self.granted)[i][0] == gs[i][0])
    ensures(as_list_ib(self.granted)[i][1] == gs[i][1])
    ensures(self.encoded == packet)


@contract('mqtt.pdu.SUBACK.decode', props=['C16', 'C07'])
def _(self: Ref['mqtt.pdu.SUBACK'], packet: Bytes):
    raises(IndexError, when=len(body(packet)) < 2)
    modifies(self.encoded, self.msgId, self.granted)
    ensures(len(body(packet)) >= 2)
    ensures(self.msgId == body(packet)[0] * 256 + body(packet)[1])
    ensures(is_int(self.msgId) and 0 <= self.msgId <= 65535)
    ensures(is_list_ib(self.granted) and len(as_list_ib(self.granted)) == len(body(packet)) - 2)
    ensures(forall(lambda i: implies(0 <= i and i < len(body(packet)) - 2,
                                     as_list_ib(self.granted)[i][0] == body(packet)[i + 2] % 128
                                     and as_list_ib(self.granted)[i][1] == (body(packet)[i + 2] >= 128))))
    ensures(self.encoded == packet)
