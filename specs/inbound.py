"""C06: inbound PUBLISH / PUBREL (subscriber side)."""
from pyvc.speclang import *
from specs.wire import *
from specs.state import *
from specs.inv import *
from specs.retry import *
from specs.acks import *


@spec
def decoded_publish(r: Ref['mqtt.pdu.PUBLISH']) -> bool:
    """what PUBLISH.decode leaves in the object (its total contract)"""
    return (is_int(r.qos) and 0 <= r.qos and r.qos <= 3 and is_str(r.topic) and is_bytes(r.payload) and is_bool(r.dup)
            and is_bool(r.retain) and is_bytes(r.encoded) and is_unset(r.deferred) and is_unset(r.alarm)
            and ((r.qos == 0 and is_none(r.msgId)) or (r.qos > 0 and is_int(r.msgId) and 0 <= r.msgId and r.msgId <= 65535)))


@contract('mqtt.client.pubsubs.MQTTProtocol.handlePUBLISH', props=['C06', 'C16', 'C18', 'C02'])
def _(self: Ref['mqtt.client.pubsubs.MQTTProtocol'], response: Ref['mqtt.pdu.PUBLISH']):
    requires(is_obj(self.addr))
    requires(live(self) and ping_ok(self))
    requires(decoded_publish(response) and tagged(self, response))
    # the fields as received (entry values: the handler's frame does not promise to leave the packet object alone)
    q = as_int(response.qos)
    mid = response.msgId
    topic = response.topic
    payload = response.payload
    dup = response.dup
    retain = response.retain
    modifies(all_but(KEEP), callbacks())
    ensures(live(self))
    ensures(ping_untouched_by_handler(self))
    # QoS 0: delivered once, nothing written
    ensures(implies(q == 0, out(self) == old(out(self))))
    # QoS 1: exactly one PUBACK echoing the identifier, delivered once
    ensures(implies(q == 1, out(self) == old(out(self)) + lb(sPUBACK(as_int(mid)))))
    ensures(implies(q == 0 or q == 1,
                    cb_appended(self.onPublish, topic, payload, q, dup, retain, mid)
                    if is_func(self.onPublish) else cb_unchanged()))
    # QoS 2: held until PUBREL, PUBREC echoing the identifier, NOT delivered yet
    ensures(implies(q == 2, out(self) == old(out(self)) + lb(sPUBREC(as_int(mid))) and cb_unchanged()
                    and contains(X(self), as_int(mid)) and X(self)[as_int(mid)] == response))
    ensures(implies(q == 2, response.qos == 2 and response.topic == topic and response.payload == payload and response.dup == dup
                    and response.retain == retain and response.msgId == mid))
    ensures(implies(q == 3, out(self) == old(out(self)) and cb_unchanged()))
    ensures(forall(lambda k: implies(not (q == 2 and k == as_int(mid)),
                                     contains(X(self), k) == old(contains(X(self), k)) and X(self)[k] == old(X(self)[k]))))


@contract('mqtt.client.pubsubs.MQTTProtocol.handlePUBREL', props=['C06', 'C16', 'C18', 'C02'])
def _(self: Ref['mqtt.client.pubsubs.MQTTProtocol'], response: Ref['mqtt.pdu.PUBREL']):
    requires(is_obj(self.addr))
    requires(live(self) and ping_ok(self))
    requires(is_int(response.msgId) and 0 <= response.msgId <= 65535 and not_foreign(self, response))
    id = as_int(response.msgId)
    hit = contains(X(self), id)
    msg = X(self)[id]
    modifies(all_but(KEEP), callbacks())
    ensures(live(self))
    ensures(ping_untouched_by_handler(self))
    # every PUBREL, first or repeated, is answered by exactly one PUBCOMP echoing the identifier
    ensures(out(self) == old(out(self)) + lb(sPUBCOMP(id)))
    # the held message is delivered exactly when it is released, and then forgotten
    ensures(implies(hit, not contains(X(self), id)
                    and (cb_appended(self.onPublish, msg.topic, msg.payload, msg.qos, msg.dup, msg.retain, msg.msgId)
                         if is_func(self.onPublish) else cb_unchanged())))
    ensures(implies(not hit, cb_unchanged()))
    ensures(forall(lambda k: implies(k != id, contains(X(self), k) == old(contains(X(self), k)) and X(self)[k] == old(X(self)[k]))))

