"""C08 / C02 / C18: the four (re)transmission functions and their timer callbacks."""
from pyvc.speclang import *
from specs.wire import *
from specs.state import *
from specs.inv import *


# first byte with the DUP flag (bit 3) set when `flag`, everything else untouched
@spec
def with_dup(b: Bytes, flag: bool) -> Bytes:
    return (seq(b[0] + 8) + b[1:]) if (flag and (b[0] // 8) % 2 == 0) else b


@spec(opaque=True)
def dup_set(now: Bytes, before: Bytes) -> bool:
    """now is before with the DUP flag set (opaque: quantified statements carry it as an atom)"""
    return now == with_dup(before, True)


@spec
def timer_for(self: Ref['mqtt.client.pubsubs.MQTTProtocol'], r: Ref['obj'], f: int) -> bool:
    """r.alarm is a timer created by this call: ACTIVE, calling f(r) on self"""
    return (isa(r.alarm, 'DelayedCall') and is_fresh(r.alarm) and is_int(r.alarm.t_status) and r.alarm.t_status == 0 and is_int(r.alarm.t_fn) and r.alarm.t_fn == f
            and r.alarm.t_owner == self and r.alarm.t_arg == r and is_real(r.alarm.t_delay))


@spec
def out(self: Ref['mqtt.client.base.MQTTBaseProtocol']) -> ListBytes:
    return as_list_bytes(self.transport.tr_out)


# ---------------------------------------------------------------- SUBSCRIBE / UNSUBSCRIBE
@contract('mqtt.client.pubsubs.MQTTProtocol._retrySubscribe', props=['C08', 'C07', 'C02', 'C18', 'C13'])
def _(self: Ref['mqtt.client.pubsubs.MQTTProtocol'], request: Ref['mqtt.pdu.SUBSCRIBE'], dup: bool):
    requires(wf_proto(self) and is_list_bytes(self.transport.tr_out))
    requires(not_foreign(self, request))
    requires(is_bytes(request.encoded) and len(as_bytes(request.encoded)) >= 1)
    requires(isa(request.interval, 'mqtt.client.interval.Interval') and wf_interval(request.interval))
    modifies(request.encoded, request.alarm, request.interval._value, self.transport.tr_out, allocates())
    ensures(request.encoded == with_dup(old(as_bytes(request.encoded)), dup and self._version == v31))
    ensures(is_list_bytes(self.transport.tr_out) and out(self) == old(out(self)) + lb(request.encoded))
    ensures(timer_for(self, request, fn('mqtt.client.pubsubs.MQTTProtocol._subscribeError')))
    ensures(num(request.alarm.t_delay) >= request.interval.initial)
    ensures(wf_interval(request.interval))
    # I.enc is kept: only the DUP flag of the stored bytes may change (same_packet is opaque elsewhere)
    ensures(implies(old(is_bytes(request.g_base) and (enc_ok(request) or request.encoded == request.g_base)), enc_ok(request)))
    ensures(no_other_timer(request.alarm))


@contract('mqtt.client.pubsubs.MQTTProtocol._retryUnsubscribe', props=['C08', 'C07', 'C02', 'C18', 'C13'])
def _(self: Ref['mqtt.client.pubsubs.MQTTProtocol'], request: Ref['mqtt.pdu.UNSUBSCRIBE'], dup: bool):
    requires(wf_proto(self) and is_list_bytes(self.transport.tr_out))
    requires(not_foreign(self, request))
    requires(is_bytes(request.encoded) and len(as_bytes(request.encoded)) >= 1)
    requires(isa(request.interval, 'mqtt.client.interval.Interval') and wf_interval(request.interval))
    modifies(request.encoded, request.alarm, request.interval._value, self.transport.tr_out, allocates())
    ensures(request.encoded == with_dup(old(as_bytes(request.encoded)), dup and self._version == v31))
    ensures(is_list_bytes(self.transport.tr_out) and out(self) == old(out(self)) + lb(request.encoded))
    ensures(timer_for(self, request, fn('mqtt.client.pubsubs.MQTTProtocol._unsubscribeError')))
    ensures(num(request.alarm.t_delay) >= request.interval.initial)
    ensures(wf_interval(request.interval))
    # I.enc is kept: only the DUP flag of the stored bytes may change (same_packet is opaque elsewhere)
    ensures(implies(old(is_bytes(request.g_base) and (enc_ok(request) or request.encoded == request.g_base)), enc_ok(request)))
    ensures(no_other_timer(request.alarm))


# ---------------------------------------------------------------- PUBLISH / PUBREL
@contract('mqtt.client.pubsubs.MQTTProtocol._retryPublish', props=['C08', 'C05', 'C02', 'C18', 'C13', 'C12'])
def _(self: Ref['mqtt.client.pubsubs.MQTTProtocol'], request: Ref['mqtt.pdu.PUBLISH'], dup: bool):
    requires(wf_proto(self) and is_list_bytes(self.transport.tr_out))
    requires(not_foreign(self, request))
    requires(is_bytes(request.encoded) and len(as_bytes(request.encoded)) >= 1)
    requires((is_none(request.interval) and is_none(request.msgId))
             or (is_int(request.msgId) and isa(request.interval, 'mqtt.client.interval.IntervalLinear') and wf_linear(request.interval)))
    modifies(request.encoded, request.dup, request.alarm, request.interval._value, request.interval._k,
             self.transport.tr_out, allocates())
    ensures(request.encoded == with_dup(old(as_bytes(request.encoded)), dup))
    ensures(implies(dup, dup_set(as_bytes(request.encoded), old(as_bytes(request.encoded)))))
    ensures(implies(not dup, as_bytes(request.encoded) == old(as_bytes(request.encoded))))
    ensures(is_bool(request.dup) and request.dup == dup)
    ensures(is_list_bytes(self.transport.tr_out) and out(self) == old(out(self)) + lb(request.encoded))
    ensures(implies(not is_none(request.interval),
                    timer_for(self, request, fn('mqtt.client.pubsubs.MQTTProtocol._publishError'))
                    and num(request.alarm.t_delay) >= request.interval.initial and wf_linear(request.interval)))
    ensures(implies(is_none(request.interval), unchanged(request.alarm)))
    # I.enc is kept: only the DUP flag of the stored bytes may change (same_packet is opaque elsewhere)
    ensures(implies(old(is_bytes(request.g_base) and (enc_ok(request) or request.encoded == request.g_base)), enc_ok(request)))
    ensures(no_other_timer(request.alarm))


@contract('mqtt.client.pubsubs.MQTTProtocol._retryRelease', props=['C08', 'C09', 'C02', 'C18', 'C13', 'C12'])
def _(self: Ref['mqtt.client.pubsubs.MQTTProtocol'], reply: Ref['mqtt.pdu.PUBREL'], dup: bool):
    requires(wf_proto(self) and is_list_bytes(self.transport.tr_out))
    requires(not_foreign(self, reply))
    requires(is_bytes(reply.encoded) and len(as_bytes(reply.encoded)) >= 1)
    requires(isa(reply.interval, 'mqtt.client.interval.Interval') and wf_interval(reply.interval))
    modifies(reply.encoded, reply.dup, reply.alarm, reply.interval._value, self.transport.tr_out, allocates())
    ensures(reply.encoded == with_dup(old(as_bytes(reply.encoded)), dup and self._version == v31))
    ensures(implies(self._version == v31, is_bool(reply.dup) and reply.dup == dup))
    ensures(implies(not (self._version == v31), unchanged(reply.dup)))
    ensures(is_list_bytes(self.transport.tr_out) and out(self) == old(out(self)) + lb(reply.encoded))
    ensures(timer_for(self, reply, fn('mqtt.client.pubsubs.MQTTProtocol._pubrelError')))
    ensures(num(reply.alarm.t_delay) >= reply.interval.initial)
    ensures(wf_interval(reply.interval))

    # I.enc is kept: only the DUP flag of the stored bytes may change (same_packet is opaque elsewhere)
    ensures(implies(old(is_bytes(reply.g_base) and (enc_ok(reply) or reply.encoded == reply.g_base)), enc_ok(reply)))
    ensures(no_other_timer(reply.alarm))