"""C05 / C10 / C17 / C20: publish() as honoured in the connecting and connected states (doPublish)."""
from pyvc.speclang import *
from specs.wire import *
from specs.state import *
from specs.inv import *
from specs.retry import *
from specs.acks import *
from specs.publish_flow import *


@spec
def publish_request(request: Ref['mqtt.pdu.PUBLISH']) -> bool:
    """the request object as built by MQTTProtocol.publish() from its arguments"""
    return (is_int(request.qos) and is_str(request.topic) and is_bool(request.retain) and request.dup == False
            and is_bool(request.dup) and is_none(request.msgId) and is_none(request.encoded)
            and is_unset(request.alarm) and is_unset(request.deferred) and is_unset(request.g_base) and is_unset(request.g_addr)
            and (is_str(request.payload) or is_bytes(request.payload) or is_int(request.payload) or is_none(request.payload)
                 or is_real(request.payload) or is_bool(request.payload)))


@spec
def publish_rejected(request: Ref['mqtt.pdu.PUBLISH']) -> bool:
    """QoS outside 0..2, payload neither str nor bytearray, topic (or str payload) not encodable / over-long"""
    return (not (0 <= request.qos and request.qos <= 2)
            or not (is_str(request.payload) or is_bytes(request.payload))
            or not encodable(request.topic) or len(utf8(request.topic)) > 65535
            or (is_str(request.payload) and not encodable(request.payload))
            or len(pub_body(request.qos, request.topic, 0, utf8(request.payload) if is_str(request.payload) else as_bytes(request.payload))) > 268435455)


@contract('mqtt.client.pubsubs.MQTTProtocol.doPublish', props=['C05', 'C10', 'C17', 'C20', 'C18', 'C02'])
def _(self: Ref['mqtt.client.pubsubs.MQTTProtocol'], request: Ref['mqtt.pdu.PUBLISH']) -> Ref['Deferred']:
    requires(is_obj(self.addr))
    requires(inv(self) and is_list_bytes(self.transport.tr_out) and is_none(self.g_firing) and isa(self._pingReq, 'mqtt.pdu.PINGREQ'))
    requires(publish_request(request))
    modifies(all_but(KEEP_API))
    ensures(base_fixed())
    ensures(inv(self) and is_list_bytes(self.transport.tr_out))
    ensures(implies(old(alarms_set(self)), alarms_set(self)))
    ensures(is_bool(result.d_fired) and not (result.d_val == exc('MQTTStateError')))
    ensures(unchanged(self._pingReq.alarm) and conn_untouched(self))
    ensures(forall(lambda k: contains(S(self), k) == old(contains(S(self), k))) and forall(lambda k: contains(U(self), k) == old(contains(U(self), k))))
    # rejected up front: a failed Deferred, nothing written, nothing queued
    ensures(implies(publish_rejected(request), result.d_fired and not result.d_ok and is_exc(result.d_val)
                    and out(self) == old(out(self)) and dq_tail(Q(self)) == old(dq_tail(Q(self)))
                    and dq_head(Q(self)) == old(dq_head(Q(self)))))
    # accepted: queued exactly once (FIFO), then released as the window allows
    ensures(implies(not publish_rejected(request),
                    result == request.deferred and result.msgId == request.msgId
                    and dq_tail(Q(self)) == old(dq_tail(Q(self))) + 1 and dq_at(Q(self), old(dq_tail(Q(self)))) == request
                    and len(out(self)) == len(old(out(self))) + (dq_head(Q(self)) - old(dq_head(Q(self))))))
    ensures(implies(not publish_rejected(request) and request.qos == 0,
                    result.d_fired and result.d_ok and is_none(result.d_val) and is_none(request.msgId)))
    ensures(implies(not publish_rejected(request) and request.qos > 0,
                    not result.d_fired and is_int(request.msgId) and 1 <= request.msgId and request.msgId <= 65535
                    and request.msgId == self.factory.id))
    ensures(len(W(self)) <= old(len(W(self))) or len(W(self)) <= self._window)
    # whatever is released now goes out as a first transmission (DUP clear), the new request included
    ensures(forall(lambda j: implies(old(dq_head(Q(self))) <= j and j < dq_head(Q(self)),
                                     is_bool(dq_at(Q(self), j).dup) and not dq_at(Q(self), j).dup)))
    ensures(implies(not publish_rejected(request), is_bool(request.dup) and not request.dup))
    # nothing that could be sent is left waiting
    ensures(implies(not publish_rejected(request),
                    dq_len(Q(self)) == 0 or (is_int(dq_at(Q(self), dq_head(Q(self))).msgId) and len(W(self)) >= self._window)))
    # the packet this request stands for from now on (its stored bytes only ever differ from it in the DUP flag)
    ensures(implies(not publish_rejected(request),
                    request.g_base == sPUBLISH(False, request.qos, request.retain, request.topic,
                                               as_int(request.msgId) if request.qos > 0 else 0,
                                               utf8(request.payload) if is_str(request.payload) else as_bytes(request.payload))
                    and same_packet(as_bytes(request.encoded), as_bytes(request.g_base))))


@ghost_at('mqtt.client.pubsubs.MQTTProtocol.doPublish', after='request.deferred = defer.Deferred()')
def _():
    gset(request.deferred.d_owner, request)



# I.enc: the packet a request stands for is fixed when it is encoded
@ghost_at('mqtt.client.pubsubs.MQTTProtocol.doPublish', after='request.encode()')
def _():
    gset(request.g_base, as_bytes(request.encoded))
    gset(request.g_addr, self.addr)
    hint(dup_clear(as_bytes(request.encoded)))      # a freshly encoded PUBLISH (dup False) has the flag clear
