"""Wire-format reference, written from the OASIS MQTT 3.1.1 text (and IBM MQTT 3.1 where selected),
NOT from pdu.py.  Section numbers refer to mqtt-v3.1.1-os.  These functions are executable (see
pyvc.speclang) and are validated on every run against the literal byte vectors the standard prints.
"""
from pyvc.speclang import *


# [1.5.2] two byte integers: big-endian, MSB first
@spec
def u16(n: int) -> Bytes:
    return seq(n // 256, n % 256)


# [1.5.3] UTF-8 encoded strings: two byte length prefix giving the number of BYTES of the UTF-8 encoding
@spec
def mstr(s: Str) -> Bytes:
    return u16(len(utf8(s))) + utf8(s)


# [2.2.3] remaining length: 7 bits per byte, least significant group first, bit 7 = "more follows"
@spec(decreases='n')
def varint(n: int) -> Bytes:
    return seq(n) if n < 128 else seq(n % 128 + 128) + varint(n // 128)


# decoding direction of [2.2.3], total on every byte string: reads up to and including the first byte < 128
@spec(decreases='len(b)')
def dl(b: Bytes) -> int:
    return 0 if len(b) == 0 else (b[0] if b[0] < 128 else (b[0] - 128) + 128 * dl(b[1:]))


# index of the first byte < 128 at or after j (len(b) if there is none)
@spec(decreases='len(b) - j')
def scan(b: Bytes, j: int) -> int:
    return j if j >= len(b) else (j if b[j] < 128 else scan(b, j + 1))


# [2.2] fixed header + remaining length + body
@spec
def frame(b0: int, body: Bytes) -> Bytes:
    return seq(b0) + varint(len(body)) + body
