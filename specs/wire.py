"""Wire-format reference, written from the OASIS MQTT 3.1.1 text (and IBM MQTT 3.1 where selected),
NOT from pdu.py.  Section numbers refer to mqtt-v3.1.1-os.  These functions are executable (see
pyvc.speclang) and are validated on every run against the literal byte vectors the standard prints.
"""
from pyvc.speclang import *


# [1.5.2] two byte integers: big-endian, MSB first
@spec
def u16(n: int) -> Bytes:
    return seq(n // 256, n % 256)


# [1.5.3] UTF-8 encoded strings: two byte length prefix giving the number of BYTES of the UTF-8 encoding
@spec
def mstr(s: Str) -> Bytes:
    return u16(len(utf8(s))) + utf8(s)


# [2.2.3] remaining length: 7 bits per byte, least significant group first, bit 7 = "more follows"
@spec(decreases='n')
def varint(n: int) -> Bytes:
    return seq(n) if n < 128 else seq(n % 128 + 128) + varint(n // 128)


# decoding direction of [2.2.3], total on every byte string: reads up to and including the first byte < 128
@spec(decreases='len(b)')
def dl(b: Bytes) -> int:
    return 0 if len(b) == 0 else (b[0] if b[0] < 128 else (b[0] - 128) + 128 * dl(b[1:]))


# index of the first byte < 128 at or after j (len(b) if there is none)
@spec(decreases='len(b) - j')
def scan(b: Bytes, j: int) -> int:
    return j if j >= len(b) else (j if b[j] < 128 else scan(b, j + 1))


# [2.2] fixed header + remaining length + body
@spec
def frame(b0: int, body: Bytes) -> Bytes:
    return seq(b0) + varint(len(body)) + body


# ---- [3.4]-[3.7], [3.11] two-byte-body acknowledgement packets ------------------------------------
@spec
def sPUBACK(id: int) -> Bytes:
    return frame(0x40, u16(id))


@spec
def sPUBREC(id: int) -> Bytes:
    return frame(0x50, u16(id))


# [3.6.1] bits 3,2,1,0 of the PUBREL fixed header are reserved and MUST be 0,0,1,0
@spec
def sPUBREL(id: int) -> Bytes:
    return frame(0x62, u16(id))


# [3.7.1] PUBCOMP: flag bits reserved = 0 [MQTT-2.2.2-1]
@spec
def sPUBCOMP(id: int) -> Bytes:
    return frame(0x70, u16(id))


@spec
def sUNSUBACK(id: int) -> Bytes:
    return frame(0xB0, u16(id))


# [3.12] [3.13] [3.14]
@spec
def sPINGREQ() -> Bytes:
    return seq(0xC0, 0)


@spec
def sPINGRESP() -> Bytes:
    return seq(0xD0, 0)


@spec
def sDISCONNECT() -> Bytes:
    return seq(0xE0, 0)


# [3.2] CONNACK: byte 1 = connect acknowledge flags (bit 0 session present), byte 2 = return code
@spec
def sCONNACK(sp: bool, rc: int) -> Bytes:
    return frame(0x20, seq(b2i(sp), rc))


# the body of a received frame: everything after the remaining-length field
@spec
def whole(packet: Bytes) -> bool:
    """a complete packet as the framing layer hands it on: the remaining-length field ends inside it"""
    return len(packet) >= 2 and scan(packet, 1) < len(packet)


@spec
def body(packet: Bytes) -> Bytes:
    return packet[scan(packet, 1) + 1:]


# ---- [3.3] PUBLISH ----------------------------------------------------------------------------------
# byte 1: 0011 DUP QoS(2) RETAIN; variable header: topic name, packet identifier only if QoS > 0; payload
@spec
def pub_body(qos: int, topic: Str, id: int, payload: Bytes) -> Bytes:
    return mstr(topic) + (u16(id) if qos > 0 else seq()) + payload


@spec
def sPUBLISH(dup: bool, qos: int, retain: bool, topic: Str, id: int, payload: Bytes) -> Bytes:
    return frame(0x30 + 8 * b2i(dup) + 2 * qos + b2i(retain), pub_body(qos, topic, id, payload))


# ---- [3.8] SUBSCRIBE: packet identifier, then (topic filter, requested QoS) pairs in order -----------
# sub_pl(ts, i): payload bytes of the first i pairs; tail_pl(ts, k): of the pairs from index k on
@spec(decreases='i')
def sub_pl(ts: ListSI, i: int) -> Bytes:
    return seq() if i <= 0 else sub_pl(ts, i - 1) + mstr(ts[i - 1][0]) + seq(ts[i - 1][1])


@spec(decreases='len(ts) - k')
def sub_tail(ts: ListSI, k: int) -> Bytes:
    return seq() if k >= len(ts) else mstr(ts[k][0]) + seq(ts[k][1]) + sub_tail(ts, k + 1)


# [3.8.1] bits 3,2,1,0 of the SUBSCRIBE fixed header are reserved and MUST be 0,0,1,0
@spec
def sSUBSCRIBE(id: int, ts: ListSI) -> Bytes:
    return frame(0x82, u16(id) + sub_pl(ts, len(ts)))


# ---- [3.10] UNSUBSCRIBE: packet identifier, then topic filters in order ----------------------------
@spec(decreases='i')
def unsub_pl(ts: ListStr, i: int) -> Bytes:
    return seq() if i <= 0 else unsub_pl(ts, i - 1) + mstr(ts[i - 1])


@spec(decreases='len(ts) - k')
def unsub_tail(ts: ListStr, k: int) -> Bytes:
    return seq() if k >= len(ts) else mstr(ts[k]) + unsub_tail(ts, k + 1)


@spec
def sUNSUBSCRIBE(id: int, ts: ListStr) -> Bytes:
    return frame(0xA2, u16(id) + unsub_pl(ts, len(ts)))


# ---- [3.9] SUBACK: packet identifier, then one return code per topic filter: 0,1,2 granted QoS, 0x80 failure
@spec(decreases='i')
def suback_pl(gs: ListIB, i: int) -> Bytes:
    return seq() if i <= 0 else suback_pl(gs, i - 1) + seq(gs[i - 1][0] + 128 * b2i(gs[i - 1][1]))


@spec
def sSUBACK(id: int, gs: ListIB) -> Bytes:
    return frame(0x90, u16(id) + suback_pl(gs, len(gs)))


# ---- [3.1] CONNECT ----------------------------------------------------------------------------------
# protocol name / level: 3.1.1 'MQTT' / 4 [3.1.2.1, 3.1.2.2]; 3.1 'MQIsdp' / 3 (IBM MQTT V3.1 spec, 3.1 CONNECT)
@spec
def proto_name(v: Ver) -> Str:
    return 'MQIsdp' if v == v31 else 'MQTT'


@spec
def proto_level(v: Ver) -> int:
    return 3 if v == v31 else 4


# [3.1.2.3] connect flags: 7 user name, 6 password, 5 will retain, 4-3 will QoS, 2 will flag, 1 clean session, 0 reserved
@spec
def connect_flags(clean: bool, will: bool, wqos: int, wret: bool, hasuser: bool, haspass: bool) -> int:
    return 128 * b2i(hasuser) + 64 * b2i(haspass) + (32 * b2i(wret) + 8 * wqos + 4 if will else 0) + 2 * b2i(clean)


# [3.1.3] payload order: client identifier, will topic, will message, user name, password;
# will message and password are length-prefixed binary data: for str values their UTF-8 bytes, BYTE length prefix
@spec
def connect_body(v: Ver, clean: bool, will: bool, wqos: int, wret: bool, wtopic: Str, wmsg: Str,
                 hasuser: bool, user: Str, haspass: bool, pw: Str, keepalive: int, cid: Str) -> Bytes:
    return (mstr(proto_name(v)) + seq(proto_level(v)) + seq(connect_flags(clean, will, wqos, wret, hasuser, haspass))
            + u16(keepalive) + mstr(cid)
            + ((mstr(wtopic) + mstr(wmsg)) if will else seq())
            + (mstr(user) if hasuser else seq())
            + (mstr(pw) if haspass else seq()))


@spec
def sCONNECT(v: Ver, clean: bool, will: bool, wqos: int, wret: bool, wtopic: Str, wmsg: Str,
             hasuser: bool, user: Str, haspass: bool, pw: Str, keepalive: int, cid: Str) -> Bytes:
    return frame(0x10, connect_body(v, clean, will, wqos, wret, wtopic, wmsg, hasuser, user, haspass, pw, keepalive, cid))


# ---- framing of a byte stream [2.2]: a packet is its first byte, its remaining-length field and that many bytes
# first(b): total length of the first complete packet at the head of b, 0 if there is none (yet)
@spec(opaque=True)
def first(b: Bytes) -> int:
    return (0 if len(b) < 2 else
            (0 if scan(b, 1) >= len(b) else
             (1 + scan(b, 1) + dl(b[1:]) if len(b) >= 1 + scan(b, 1) + dl(b[1:]) else 0)))


# frames(b): the complete packets at the head of b, in order; rem(b): what is left after them
@spec(decreases='len(b)')
def frames(b: Bytes) -> ListBytes:
    return lb() if first(b) <= 0 else lb(b[:first(b)]) + frames(b[first(b):])


@spec(decreases='len(b)')
def rem(b: Bytes) -> Bytes:
    return b if first(b) <= 0 else rem(b[first(b):])
