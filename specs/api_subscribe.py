"""C07 / C17 / C20: subscribe() / unsubscribe() as honoured in the connected state."""
from pyvc.speclang import *
from specs.wire import *
from specs.state import *
from specs.inv import *
from specs.retry import *
from specs.acks import *


@spec
def norm_sub(request: Ref['mqtt.pdu.SUBSCRIBE']) -> ListSI:
    """the three accepted argument shapes as one list of (topic, QoS) pairs"""
    return (lsi(request.topics, request.qos) if is_str(request.topics) else
            (lsi(as_pair_si(request.topics)[0], as_pair_si(request.topics)[1]) if is_pair_si(request.topics)
             else as_list_si(request.topics)))


@spec
def sub_shape_ok(request: Ref['mqtt.pdu.SUBSCRIBE']) -> bool:
    return is_str(request.topics) or is_pair_si(request.topics) or is_list_si(request.topics)


@spec
def topics_bad(ts: ListSI) -> bool:
    """some QoS outside 0..2 (as _checkSubscribe tests it), or some topic not encodable / over-long (as encode() does)"""
    return (exists(lambda i: 0 <= i and i < len(ts) and not (0 <= ts[i][1] and ts[i][1] <= 2))
            or exists(lambda i: 0 <= i and i < len(ts) and (not encodable(ts[i][0]) or len(utf8(ts[i][0])) > 65535)))


@contract('mqtt.client.pubsubs.MQTTProtocol.doSubscribe', props=['C07', 'C17', 'C20', 'C18', 'C02'])
def _(self: Ref['mqtt.client.pubsubs.MQTTProtocol'], request: Ref['mqtt.pdu.SUBSCRIBE']) -> Ref['Deferred']:
    requires(is_obj(self.addr))
    requires(live(self) and isa(self._pingReq, 'mqtt.pdu.PINGREQ'))
    requires(is_int(request.qos) and is_none(request.msgId) and is_none(request.encoded) and is_unset(request.g_base) and is_unset(request.g_addr))
    requires(is_unset(request.alarm) and is_unset(request.deferred) and is_unset(request.interval))
    requires(sub_shape_ok(request) or is_int(request.topics) or is_none(request.topics))
    ts = norm_sub(request)
    full = len(S(self)) >= self._window
    rejected = full or not sub_shape_ok(request) or topics_bad(ts)
    modifies(all_but(KEEP_API))
    ensures(base_fixed())
    ensures(live(self))
    ensures(is_bool(result.d_fired) and not (result.d_val == exc('MQTTStateError')))
    ensures(unchanged(self._pingReq.alarm))
    # window full: MQTTWindowError, nothing written
    ensures(implies(full, result.d_fired and not result.d_ok and is_exc(result.d_val) and out(self) == old(out(self))))
    # any other rejection: nothing written, nothing registered
    ensures(implies(rejected, result.d_fired and not result.d_ok and out(self) == old(out(self))
                    and forall(lambda k: contains(S(self), k) == old(contains(S(self), k)))))
    # accepted: exactly one SUBSCRIBE naming those topics in order, under the identifier just drawn
    ensures(implies(not rejected,
                    result == request.deferred and not result.d_fired and result.msgId == self.factory.id
                    and request.msgId == self.factory.id and contains(S(self), self.factory.id)
                    and S(self)[self.factory.id] == request
                    and out(self) == old(out(self)) + lb(sSUBSCRIBE(self.factory.id, ts))
                    and request.g_base == sSUBSCRIBE(self.factory.id, ts)))


@ghost_at('mqtt.client.pubsubs.MQTTProtocol.doSubscribe', after='request.deferred = defer.Deferred()')
def _():
    gset(request.deferred.d_owner, request)


# ---------------------------------------------------------------- unsubscribe
@spec
def norm_unsub(request: Ref['mqtt.pdu.UNSUBSCRIBE']) -> ListStr:
    return lstr(request.topics) if is_str(request.topics) else as_list_str(request.topics)


@spec
def strs_bad(ts: ListStr) -> bool:
    return exists(lambda i: 0 <= i and i < len(ts) and (not encodable(ts[i]) or len(utf8(ts[i])) > 65535))


@contract('mqtt.client.pubsubs.MQTTProtocol.doUnsubscribe', props=['C07', 'C17', 'C20', 'C18', 'C02'])
def _(self: Ref['mqtt.client.pubsubs.MQTTProtocol'], request: Ref['mqtt.pdu.UNSUBSCRIBE']) -> Ref['Deferred']:
    requires(is_obj(self.addr))
    requires(live(self) and isa(self._pingReq, 'mqtt.pdu.PINGREQ'))
    requires(is_none(request.msgId) and is_none(request.encoded) and is_unset(request.g_base) and is_unset(request.g_addr))
    requires(is_unset(request.alarm) and is_unset(request.deferred) and is_unset(request.interval))
    requires(is_str(request.topics) or is_list_str(request.topics) or is_int(request.topics) or is_none(request.topics) or is_pair_si(request.topics))
    ts = norm_unsub(request)
    full = len(U(self)) >= self._window
    shape = is_str(request.topics) or is_list_str(request.topics)
    rejected = full or not shape or strs_bad(ts)
    modifies(all_but(KEEP_API))
    ensures(base_fixed())
    ensures(live(self))
    ensures(is_bool(result.d_fired) and not (result.d_val == exc('MQTTStateError')))
    ensures(unchanged(self._pingReq.alarm))
    ensures(implies(full, result.d_fired and not result.d_ok and is_exc(result.d_val) and out(self) == old(out(self))))
    ensures(implies(rejected, result.d_fired and not result.d_ok and out(self) == old(out(self))
                    and forall(lambda k: contains(U(self), k) == old(contains(U(self), k)))))
    ensures(implies(not rejected,
                    result == request.deferred and not result.d_fired and result.msgId == self.factory.id
                    and request.msgId == self.factory.id and contains(U(self), self.factory.id)
                    and U(self)[self.factory.id] == request
                    and out(self) == old(out(self)) + lb(sUNSUBSCRIBE(self.factory.id, ts))
                    and request.g_base == sUNSUBSCRIBE(self.factory.id, ts)))


@ghost_at('mqtt.client.pubsubs.MQTTProtocol.doUnsubscribe', after='request.deferred = defer.Deferred()')
def _():
    gset(request.deferred.d_owner, request)


@ghost_at('mqtt.client.pubsubs.MQTTProtocol.doSubscribe', after='request.encode()')
def _():
    gset(request.g_base, as_bytes(request.encoded))
    gset(request.g_addr, self.addr)


@ghost_at('mqtt.client.pubsubs.MQTTProtocol.doUnsubscribe', after='request.encode()')
def _():
    gset(request.g_base, as_bytes(request.encoded))
    gset(request.g_addr, self.addr)
