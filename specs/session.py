"""C11 / C12 / C13: purge and resume of the per-address session, connection loss."""
from pyvc.speclang import *
from specs.wire import *
from specs.state import *
from specs.inv import *
from specs.retry import *
from specs.acks import *

KEEP_PURGE = KEEP0 + ['alarm', 'g_base', 'g_addr', 'g_firing', 'id', 'deferred', 'msgId', 'retries', 'qos', 'topic', 'retain', 'payload', 'encoded', 'dup',
                      'alarm', 'interval', 't_status', 't_fn', 't_arg', 't_owner', 't_delay', 'q_pos', 'initial', 'factor',
                      'bandwith', 'maxDelay', '_value', '_k', 'd_owner', 'tr_out', 'tr_aborts', 'tr_closes', '$dq', '$dqh', '$dqt']


@spec
def conn_deferred_owned(self: Ref['mqtt.client.pubsubs.MQTTProtocol']) -> bool:
    """a connect() is in progress and its Deferred is owned by the CONNECT request (so it is none of the others)"""
    return (isa(self.connReq, 'mqtt.pdu.CONNECT') and isa(self.connReq.deferred, 'Deferred')
            and self.connReq.deferred.d_owner == self.connReq)


@spec
def fired_stay_fired() -> bool:
    """a Deferred that had fired keeps its outcome (firing twice is an error, never done)"""
    return forall(lambda d: implies(old(is_bool(obj_at(d).d_fired) and obj_at(d).d_fired),
                                    unchanged(obj_at(d).d_fired, obj_at(d).d_ok, obj_at(d).d_val)))


@spec
def failed_with(r: Ref['obj'], reason: Any) -> bool:
    """the Deferred of request r has fired, as a failure carrying `reason`"""
    return is_bool(r.deferred.d_fired) and r.deferred.d_fired and is_bool(r.deferred.d_ok) and not r.deferred.d_ok and r.deferred.d_val == reason


@contract('mqtt.client.pubsubs.MQTTProtocol._purgeSession', props=['C11', 'C12', 'C13', 'C05'])
def _(self: Ref['mqtt.client.pubsubs.MQTTProtocol'], reason: Any):
    requires(is_obj(self.addr))
    requires(inv(self) and is_none(self.g_firing))
    requires(is_exc(reason) or is_obj(reason))
    modifies(all_but(KEEP_PURGE))
    ensures(inv(self))
    # entries left behind by an earlier connection (no timer) are removed and their Deferred fails with the reason;
    # entries of this connection (timer running) are untouched
    ensures(forall(lambda k: implies(old(contains(W(self), k)) and old(is_none(W(self)[k].alarm)),
                                     not contains(W(self), k) and failed_with(old(W(self)[k]), reason))))
    ensures(forall(lambda k: implies(old(contains(W(self), k)) and not old(is_none(W(self)[k].alarm)),
                                     contains(W(self), k) and W(self)[k] == old(W(self)[k]))))
    ensures(forall(lambda k: implies(not old(contains(W(self), k)), not contains(W(self), k))))
    ensures(forall(lambda k: implies(old(contains(R(self), k)) and old(is_none(R(self)[k].alarm)),
                                     not contains(R(self), k) and failed_with(old(R(self)[k]), reason))))
    ensures(forall(lambda k: implies(old(contains(R(self), k)) and not old(is_none(R(self)[k].alarm)),
                                     contains(R(self), k) and R(self)[k] == old(R(self)[k]))))
    ensures(forall(lambda k: implies(not old(contains(R(self), k)), not contains(R(self), k))))
    ensures(implies(old(alarms_set(self)), alarms_set(self)))
    ensures(forall(lambda k: contains(S(self), k) == old(contains(S(self), k)) and S(self)[k] == old(S(self)[k])))
    ensures(forall(lambda k: contains(U(self), k) == old(contains(U(self), k)) and U(self)[k] == old(U(self)[k])))
    # the Deferred of a connect() in progress is not one of those
    ensures(implies(old(conn_deferred_owned(self)), unchanged(self.connReq.deferred.d_fired)))
    ensures(fired_stay_fired())
    ensures(same_containers(self))
    # the inbound QoS 2 window is never touched by a purge (C06: exactly-once delivery across reconnects)
    ensures(forall(lambda k: contains(X(self), k) == old(contains(X(self), k)) and X(self)[k] == old(X(self)[k])))


@loop('mqtt.client.pubsubs.MQTTProtocol._purgeSession', 0)
def _():
    invariant(is_obj(self.addr))
    invariant(wf_proto(self) and distinct_containers(self))
    invariant(inv_W(self))
    invariant(inv_R(self))
    invariant(inv_S(self))
    invariant(inv_U(self))
    invariant(inv_X(self))
    invariant(inv_Q(self))
    invariant(conn_timers_ok(self))
    invariant(forall(lambda k: implies(old(contains(W(self), k)) and pos_of(keys, k) < idx and old(is_none(W(self)[k].alarm)),
                                       not contains(W(self), k) and failed_with(old(W(self)[k]), reason))))
    invariant(forall(lambda k: implies(old(contains(W(self), k)) and (pos_of(keys, k) >= idx or not old(is_none(W(self)[k].alarm))),
                                       contains(W(self), k) and W(self)[k] == old(W(self)[k]))))
    invariant(forall(lambda k: implies(not old(contains(W(self), k)), not contains(W(self), k))))
    invariant(forall(lambda k: contains(R(self), k) == old(contains(R(self), k)) and R(self)[k] == old(R(self)[k])))
    invariant(forall(lambda k: contains(S(self), k) == old(contains(S(self), k)) and S(self)[k] == old(S(self)[k])))
    invariant(forall(lambda k: contains(U(self), k) == old(contains(U(self), k)) and U(self)[k] == old(U(self)[k])))
    invariant(forall(lambda k: contains(X(self), k) == old(contains(X(self), k)) and X(self)[k] == old(X(self)[k])))
    invariant(implies(old(alarms_set(self)), alarms_set(self)))
    invariant(implies(old(conn_deferred_owned(self)), unchanged(self.connReq.deferred.d_fired)))
    invariant(fired_stay_fired())
    invariant(same_containers(self))


@loop('mqtt.client.pubsubs.MQTTProtocol._purgeSession', 1)
def _():
    invariant(is_obj(self.addr))
    invariant(wf_proto(self) and distinct_containers(self))
    invariant(inv_W(self))
    invariant(inv_R(self))
    invariant(inv_S(self))
    invariant(inv_U(self))
    invariant(inv_X(self))
    invariant(inv_Q(self))
    invariant(conn_timers_ok(self))
    invariant(forall(lambda k: implies(old(contains(W(self), k)) and old(is_none(W(self)[k].alarm)),
                                       not contains(W(self), k) and failed_with(old(W(self)[k]), reason))))
    invariant(forall(lambda k: implies(old(contains(W(self), k)) and not old(is_none(W(self)[k].alarm)),
                                       contains(W(self), k) and W(self)[k] == old(W(self)[k]))))
    invariant(forall(lambda k: implies(not old(contains(W(self), k)), not contains(W(self), k))))
    invariant(forall(lambda k: implies(old(contains(R(self), k)) and pos_of(keys, k) < idx and old(is_none(R(self)[k].alarm)),
                                       not contains(R(self), k) and failed_with(old(R(self)[k]), reason))))
    invariant(forall(lambda k: implies(old(contains(R(self), k)) and (pos_of(keys, k) >= idx or not old(is_none(R(self)[k].alarm))),
                                       contains(R(self), k) and R(self)[k] == old(R(self)[k]))))
    invariant(forall(lambda k: implies(not old(contains(R(self), k)), not contains(R(self), k))))
    invariant(forall(lambda k: contains(S(self), k) == old(contains(S(self), k)) and S(self)[k] == old(S(self)[k])))
    invariant(forall(lambda k: contains(U(self), k) == old(contains(U(self), k)) and U(self)[k] == old(U(self)[k])))
    invariant(forall(lambda k: contains(X(self), k) == old(contains(X(self), k)) and X(self)[k] == old(X(self)[k])))
    invariant(implies(old(alarms_set(self)), alarms_set(self)))
    invariant(implies(old(conn_deferred_owned(self)), unchanged(self.connReq.deferred.d_fired)))
    invariant(fired_stay_fired())
    invariant(same_containers(self))


# ---------------------------------------------------------------- resume of a persistent session
@spec
def resumed_pub(self: Ref['mqtt.client.pubsubs.MQTTProtocol'], r: Ref['mqtt.pdu.PUBLISH'], enc0: Bytes) -> bool:
    """r was left behind by an earlier connection and has now been sent again: DUP set, same bytes otherwise,
    one fresh timer"""
    return (timer_for(self, r, fn('mqtt.client.pubsubs.MQTTProtocol._publishError')) and r.encoded == with_dup(enc0, True)
            and r.dup == True)


@spec
def resumed_rel(self: Ref['mqtt.client.pubsubs.MQTTProtocol'], r: Ref['mqtt.pdu.PUBREL'], enc0: Bytes) -> bool:
    return (timer_for(self, r, fn('mqtt.client.pubsubs.MQTTProtocol._pubrelError'))
            and r.encoded == with_dup(enc0, self._version == v31))


@contract('mqtt.client.pubsubs.MQTTProtocol._syncSession', props=['C12', 'C09', 'C08', 'C13'])
def _(self: Ref['mqtt.client.pubsubs.MQTTProtocol']):
    requires(is_obj(self.addr))
    requires(isa(self._pingReq, 'mqtt.pdu.PINGREQ'))
    requires(inv(self) and is_list_bytes(self.transport.tr_out) and is_none(self.g_firing))
    modifies(all_but(KEEP_REFILL))
    ensures(inv(self) and is_list_bytes(self.transport.tr_out))
    ensures(forall(lambda k: implies(contains(W(self), k), not is_none(W(self)[k].alarm))))
    ensures(forall(lambda k: implies(contains(R(self), k), not is_none(R(self)[k].alarm))))
    # the windows keep their entries; what an earlier connection left behind is sent again, the rest is untouched
    ensures(forall(lambda k: contains(W(self), k) == old(contains(W(self), k)) and W(self)[k] == old(W(self)[k])))
    ensures(forall(lambda k: contains(R(self), k) == old(contains(R(self), k)) and R(self)[k] == old(R(self)[k])))
    ensures(forall(lambda k: implies(contains(W(self), k) and old(is_none(W(self)[k].alarm)),
                                     resumed_pub(self, W(self)[k], old(as_bytes(W(self)[k].encoded))))))
    ensures(forall(lambda k: implies(contains(W(self), k) and not old(is_none(W(self)[k].alarm)),
                                     W(self)[k].alarm == old(W(self)[k].alarm) and W(self)[k].encoded == old(W(self)[k].encoded))))
    ensures(forall(lambda k: implies(contains(R(self), k) and old(is_none(R(self)[k].alarm)),
                                     resumed_rel(self, R(self)[k], old(as_bytes(R(self)[k].encoded))))))
    ensures(forall(lambda k: implies(contains(R(self), k) and not old(is_none(R(self)[k].alarm)),
                                     R(self)[k].alarm == old(R(self)[k].alarm) and R(self)[k].encoded == old(R(self)[k].encoded))))
    ensures(len(out(self)) >= len(old(out(self))))
    ensures(unchanged(self._pingReq.alarm) and conn_untouched(self))
    ensures(same_containers(self))
    ensures(forall(lambda k: contains(S(self), k) == old(contains(S(self), k)) and S(self)[k] == old(S(self)[k])))
    ensures(forall(lambda k: contains(U(self), k) == old(contains(U(self), k)) and U(self)[k] == old(U(self)[k])))
    ensures(implies(old(forall(lambda k: implies(contains(S(self), k), not is_none(S(self)[k].alarm)))),
                    forall(lambda k: implies(contains(S(self), k), not is_none(S(self)[k].alarm)))))
    ensures(implies(old(forall(lambda k: implies(contains(U(self), k), not is_none(U(self)[k].alarm)))),
                    forall(lambda k: implies(contains(U(self), k), not is_none(U(self)[k].alarm)))))


@loop('mqtt.client.pubsubs.MQTTProtocol._syncSession', 0)
def _():
    invariant(is_obj(self.addr))
    invariant(conn_untouched(self))
    invariant(wf_proto(self) and distinct_containers(self) and is_list_bytes(self.transport.tr_out))
    invariant(inv_W(self))
    invariant(inv_R(self))
    invariant(inv_S(self))
    invariant(inv_U(self))
    invariant(inv_X(self))
    invariant(inv_Q(self))
    invariant(conn_timers_ok(self))
    invariant(forall(lambda k: contains(W(self), k) == old(contains(W(self), k)) and W(self)[k] == old(W(self)[k])))
    invariant(forall(lambda k: contains(R(self), k) == old(contains(R(self), k)) and R(self)[k] == old(R(self)[k])))
    invariant(forall(lambda k: contains(S(self), k) == old(contains(S(self), k)) and S(self)[k] == old(S(self)[k])))
    invariant(forall(lambda k: contains(U(self), k) == old(contains(U(self), k)) and U(self)[k] == old(U(self)[k])))
    invariant(forall(lambda k: implies(contains(W(self), k), W(self)[k].alarm == old(W(self)[k].alarm) and W(self)[k].encoded == old(W(self)[k].encoded)
                                       and W(self)[k].dup == old(W(self)[k].dup))))
    invariant(forall(lambda k: implies(contains(R(self), k) and pos_of(keys, k) < idx and old(is_none(R(self)[k].alarm)),
                                       resumed_rel(self, R(self)[k], old(as_bytes(R(self)[k].encoded))))))
    invariant(forall(lambda k: implies(contains(R(self), k) and (pos_of(keys, k) >= idx or not old(is_none(R(self)[k].alarm))),
                                       R(self)[k].alarm == old(R(self)[k].alarm) and R(self)[k].encoded == old(R(self)[k].encoded))))
    invariant(forall(lambda k: implies(contains(S(self), k), S(self)[k].alarm == old(S(self)[k].alarm))))
    invariant(forall(lambda k: implies(contains(U(self), k), U(self)[k].alarm == old(U(self)[k].alarm))))
    invariant(len(out(self)) >= len(old(out(self))))
    invariant(unchanged(self._pingReq.alarm))
    invariant(same_containers(self))
    invariant(forall(lambda k: implies(contains(R(self), k) and pos_of(keys, k) < idx, not is_none(R(self)[k].alarm))))
    hint_exit(forall(lambda k: implies(contains(R(self), k), pos_of(keys, k) < idx)))
    hint_exit(forall(lambda k: implies(contains(R(self), k), not is_none(R(self)[k].alarm))))


@loop('mqtt.client.pubsubs.MQTTProtocol._syncSession', 1)
def _():
    invariant(is_obj(self.addr))
    invariant(conn_untouched(self))
    invariant(wf_proto(self) and distinct_containers(self) and is_list_bytes(self.transport.tr_out))
    invariant(inv_W(self))
    invariant(inv_R(self))
    invariant(inv_S(self))
    invariant(inv_U(self))
    invariant(inv_X(self))
    invariant(inv_Q(self))
    invariant(conn_timers_ok(self))
    invariant(forall(lambda k: contains(W(self), k) == old(contains(W(self), k)) and W(self)[k] == old(W(self)[k])))
    invariant(forall(lambda k: contains(R(self), k) == old(contains(R(self), k)) and R(self)[k] == old(R(self)[k])))
    invariant(forall(lambda k: contains(S(self), k) == old(contains(S(self), k)) and S(self)[k] == old(S(self)[k])))
    invariant(forall(lambda k: contains(U(self), k) == old(contains(U(self), k)) and U(self)[k] == old(U(self)[k])))
    invariant(forall(lambda k: implies(contains(R(self), k) and old(is_none(R(self)[k].alarm)),
                                       resumed_rel(self, R(self)[k], old(as_bytes(R(self)[k].encoded))))))
    invariant(forall(lambda k: implies(contains(R(self), k) and not old(is_none(R(self)[k].alarm)),
                                       R(self)[k].alarm == old(R(self)[k].alarm) and R(self)[k].encoded == old(R(self)[k].encoded))))
    invariant(forall(lambda k: implies(contains(W(self), k) and pos_of(keys, k) < idx and old(is_none(W(self)[k].alarm)),
                                       resumed_pub(self, W(self)[k], old(as_bytes(W(self)[k].encoded))))))
    invariant(forall(lambda k: implies(contains(W(self), k) and (pos_of(keys, k) >= idx or not old(is_none(W(self)[k].alarm))),
                                       W(self)[k].alarm == old(W(self)[k].alarm) and W(self)[k].encoded == old(W(self)[k].encoded))))
    invariant(forall(lambda k: implies(contains(S(self), k), S(self)[k].alarm == old(S(self)[k].alarm))))
    invariant(forall(lambda k: implies(contains(U(self), k), U(self)[k].alarm == old(U(self)[k].alarm))))
    invariant(len(out(self)) >= len(old(out(self))))
    invariant(unchanged(self._pingReq.alarm))
    invariant(same_containers(self))
    invariant(forall(lambda k: implies(contains(R(self), k), not is_none(R(self)[k].alarm))))
    invariant(forall(lambda k: implies(contains(W(self), k) and pos_of(keys, k) < idx, not is_none(W(self)[k].alarm))))
    hint_exit(forall(lambda k: implies(contains(W(self), k), pos_of(keys, k) < idx)))
    hint_exit(forall(lambda k: implies(contains(W(self), k), not is_none(W(self)[k].alarm))))
