"""C11 / C12 / C13: purge and resume of the per-address session, connection loss."""
from pyvc.speclang import *
from specs.wire import *
from specs.state import *
from specs.inv import *
from specs.retry import *
from specs.acks import *

KEEP_PURGE = KEEP0 + ['g_firing', 'id', 'deferred', 'msgId', 'retries', 'qos', 'topic', 'retain', 'payload', 'encoded', 'dup',
                      'alarm', 'interval', 't_status', 't_fn', 't_arg', 't_owner', 't_delay', 'q_pos', 'initial', 'factor',
                      'bandwith', 'maxDelay', '_value', '_k', 'd_owner', 'tr_out', 'tr_aborts', 'tr_closes']


@spec
def failed_with(r: Ref['obj'], reason: Any) -> bool:
    """the Deferred of request r has fired, as a failure carrying `reason`"""
    return is_bool(r.deferred.d_fired) and r.deferred.d_fired and is_bool(r.deferred.d_ok) and not r.deferred.d_ok and r.deferred.d_val == reason


@contract('mqtt.client.pubsubs.MQTTProtocol._purgeSession', props=['C11', 'C12', 'C13', 'C05'])
def _(self: Ref['mqtt.client.pubsubs.MQTTProtocol'], reason: Any):
    requires(is_obj(self.addr))
    requires(inv(self) and is_none(self.g_firing))
    requires(is_exc(reason) or is_obj(reason))
    modifies(all_but(KEEP_PURGE))
    ensures(inv(self))
    # entries left behind by an earlier connection (no timer) are removed and their Deferred fails with the reason;
    # entries of this connection (timer running) are untouched
    ensures(forall(lambda k: implies(old(contains(W(self), k)) and old(is_none(W(self)[k].alarm)),
                                     not contains(W(self), k) and failed_with(old(W(self)[k]), reason))))
    ensures(forall(lambda k: implies(old(contains(W(self), k)) and not old(is_none(W(self)[k].alarm)),
                                     contains(W(self), k) and W(self)[k] == old(W(self)[k]))))
    ensures(forall(lambda k: implies(not old(contains(W(self), k)), not contains(W(self), k))))
    ensures(forall(lambda k: implies(old(contains(R(self), k)) and old(is_none(R(self)[k].alarm)),
                                     not contains(R(self), k) and failed_with(old(R(self)[k]), reason))))
    ensures(forall(lambda k: implies(old(contains(R(self), k)) and not old(is_none(R(self)[k].alarm)),
                                     contains(R(self), k) and R(self)[k] == old(R(self)[k]))))
    ensures(forall(lambda k: implies(not old(contains(R(self), k)), not contains(R(self), k))))
    ensures(implies(old(alarms_set(self)), alarms_set(self)))
    ensures(forall(lambda k: contains(S(self), k) == old(contains(S(self), k)) and S(self)[k] == old(S(self)[k])))
    ensures(forall(lambda k: contains(U(self), k) == old(contains(U(self), k)) and U(self)[k] == old(U(self)[k])))


@loop('mqtt.client.pubsubs.MQTTProtocol._purgeSession', 0)
def _():
    invariant(is_obj(self.addr))
    invariant(wf_proto(self) and distinct_containers(self))
    invariant(inv_W(self))
    invariant(inv_R(self))
    invariant(inv_S(self))
    invariant(inv_U(self))
    invariant(inv_X(self))
    invariant(inv_Q(self))
    invariant(forall(lambda k: implies(old(contains(W(self), k)) and pos_of(keys, k) < idx and old(is_none(W(self)[k].alarm)),
                                       not contains(W(self), k) and failed_with(old(W(self)[k]), reason))))
    invariant(forall(lambda k: implies(old(contains(W(self), k)) and (pos_of(keys, k) >= idx or not old(is_none(W(self)[k].alarm))),
                                       contains(W(self), k) and W(self)[k] == old(W(self)[k]))))
    invariant(forall(lambda k: implies(not old(contains(W(self), k)), not contains(W(self), k))))
    invariant(forall(lambda k: contains(R(self), k) == old(contains(R(self), k)) and R(self)[k] == old(R(self)[k])))
    invariant(forall(lambda k: contains(S(self), k) == old(contains(S(self), k)) and S(self)[k] == old(S(self)[k])))
    invariant(forall(lambda k: contains(U(self), k) == old(contains(U(self), k)) and U(self)[k] == old(U(self)[k])))
    invariant(implies(old(alarms_set(self)), alarms_set(self)))


@loop('mqtt.client.pubsubs.MQTTProtocol._purgeSession', 1)
def _():
    invariant(is_obj(self.addr))
    invariant(wf_proto(self) and distinct_containers(self))
    invariant(inv_W(self))
    invariant(inv_R(self))
    invariant(inv_S(self))
    invariant(inv_U(self))
    invariant(inv_X(self))
    invariant(inv_Q(self))
    invariant(forall(lambda k: implies(old(contains(W(self), k)) and old(is_none(W(self)[k].alarm)),
                                       not contains(W(self), k) and failed_with(old(W(self)[k]), reason))))
    invariant(forall(lambda k: implies(old(contains(W(self), k)) and not old(is_none(W(self)[k].alarm)),
                                       contains(W(self), k) and W(self)[k] == old(W(self)[k]))))
    invariant(forall(lambda k: implies(not old(contains(W(self), k)), not contains(W(self), k))))
    invariant(forall(lambda k: implies(old(contains(R(self), k)) and pos_of(keys, k) < idx and old(is_none(R(self)[k].alarm)),
                                       not contains(R(self), k) and failed_with(old(R(self)[k]), reason))))
    invariant(forall(lambda k: implies(old(contains(R(self), k)) and (pos_of(keys, k) >= idx or not old(is_none(R(self)[k].alarm))),
                                       contains(R(self), k) and R(self)[k] == old(R(self)[k]))))
    invariant(forall(lambda k: implies(not old(contains(R(self), k)), not contains(R(self), k))))
    invariant(forall(lambda k: contains(S(self), k) == old(contains(S(self), k)) and S(self)[k] == old(S(self)[k])))
    invariant(forall(lambda k: contains(U(self), k) == old(contains(U(self), k)) and U(self)[k] == old(U(self)[k])))
    invariant(implies(old(alarms_set(self)), alarms_set(self)))
