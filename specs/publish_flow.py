"""C10 / C05 / C09: the transmit queue and window (_refillPublish) and the publish acknowledgement handlers."""
from pyvc.speclang import *
from specs.wire import *
from specs.state import *
from specs.inv import *
from specs.retry import *
from specs.acks import *


@spec
def in_range(self: Ref['mqtt.client.pubsubs.MQTTProtocol'], r: Ref['obj'], lo: int, hi: int) -> bool:
    """r is the queue item at one of the positions lo..hi-1"""
    return is_int(r.q_pos) and lo <= r.q_pos and r.q_pos < hi and dq_at(Q(self), r.q_pos) == r


@spec
def sent_in_order(self: Ref['mqtt.client.pubsubs.MQTTProtocol'], lo: int, hi: int, n0: int, dup: bool) -> bool:
    """two-state: the queue items at positions lo..hi-1 have been transmitted (one write each: the length clause next
    to every use): each holds the bytes it held before with the DUP flag as given; no other request was touched.
    (That the k-th packet written is the k-th item's is NOT stated: z3 cannot carry seq.nth facts through the loop; it
    rests on the per-iteration contract of _retryPublish - out == old(out) + [request.encoded] - and the popleft order.)"""
    return (forall(lambda j: implies(lo <= j and j < hi,
                                     is_bool(dq_at(Q(self), j).dup) and dq_at(Q(self), j).dup == dup
                                     and is_bytes(dq_at(Q(self), j).encoded)
                                     and implies(not dup, as_bytes(dq_at(Q(self), j).encoded) == old(as_bytes(dq_at(Q(self), j).encoded)))
                                     and implies(dup, dup_set(as_bytes(dq_at(Q(self), j).encoded), old(as_bytes(dq_at(Q(self), j).encoded))))))
            and forall(lambda x: implies(not in_range(self, obj_at(x), lo, hi), unchanged(obj_at(x).encoded, obj_at(x).dup))))


@spec
def first_tx(self: Ref['mqtt.client.pubsubs.MQTTProtocol'], lo: int) -> bool:
    """two-state: whatever left the queue since position lo went out as a FIRST transmission: DUP clear in the object,
    stored bytes exactly as queued (C08: DUP=0 the first time)"""
    return (forall(lambda j: implies(lo <= j and j < dq_head(Q(self)), is_bool(dq_at(Q(self), j).dup) and not dq_at(Q(self), j).dup))
            and forall(lambda j: implies(lo <= j and j < dq_head(Q(self)),
                                         as_bytes(dq_at(Q(self), j).encoded) == old(as_bytes(dq_at(Q(self), j).encoded)))))


@contract('mqtt.client.pubsubs.MQTTProtocol._refillPublish', props=['C10', 'C05', 'C12', 'C13'])
def _(self: Ref['mqtt.client.pubsubs.MQTTProtocol'], dup: bool):
    requires(is_obj(self.addr))
    requires(inv(self) and is_list_bytes(self.transport.tr_out) and isa(self._pingReq, 'mqtt.pdu.PINGREQ'))
    h0 = dq_head(Q(self))
    n0 = len(W(self))
    nout = len(out(self))
    modifies(all_but(KEEP_REFILL))
    ensures(inv(self) and is_list_bytes(self.transport.tr_out))
    # the queue only loses a prefix; one write per released message
    ensures(dq_tail(Q(self)) == old(dq_tail(Q(self))) and h0 <= dq_head(Q(self)))
    ensures(forall(lambda j: implies(dq_head(Q(self)) <= j and j < dq_tail(Q(self)), dq_at(Q(self), j) == old(dq_at(Q(self), j)))))
    ensures(len(out(self)) == len(old(out(self))) + (dq_head(Q(self)) - h0))
    ensures(sent_in_order(self, h0, dq_head(Q(self)), nout, dup))
    # window bound: never more in flight than max(what was in flight, the window in force)
    ensures(len(W(self)) <= n0 or len(W(self)) <= self._window)
    # nothing stranded: the queue is empty, or its head needs a slot and there is none
    ensures(dq_len(Q(self)) == 0 or (is_int(dq_at(Q(self), dq_head(Q(self))).msgId) and len(W(self)) >= self._window))
    # entries that were in flight are untouched; new ones are driven by a fresh timer
    ensures(implies(old(alarms_set(self)), alarms_set(self)))
    ensures(same_containers(self))
    ensures(unchanged(self._pingReq.alarm) and conn_untouched(self))
    # the other windows are not touched
    ensures(forall(lambda k: contains(R(self), k) == old(contains(R(self), k)) and R(self)[k] == old(R(self)[k])))
    ensures(forall(lambda k: contains(S(self), k) == old(contains(S(self), k)) and S(self)[k] == old(S(self)[k])))
    ensures(forall(lambda k: contains(U(self), k) == old(contains(U(self), k)) and U(self)[k] == old(U(self)[k])))
    ensures(forall(lambda k: contains(X(self), k) == old(contains(X(self), k)) and X(self)[k] == old(X(self)[k])))


@loop('mqtt.client.pubsubs.MQTTProtocol._refillPublish', 0)
def _():
    invariant(wf_proto(self) and distinct_containers(self) and is_list_bytes(self.transport.tr_out))
    invariant(inv_W(self))
    invariant(inv_R(self))
    invariant(inv_S(self))
    invariant(inv_U(self))
    invariant(inv_X(self))
    invariant(inv_Q(self))
    invariant(conn_timers_ok(self))
    invariant(dq_tail(Q(self)) == old(dq_tail(Q(self))) and old(dq_head(Q(self))) <= dq_head(Q(self)))
    invariant(forall(lambda j: implies(dq_head(Q(self)) <= j and j < dq_tail(Q(self)), dq_at(Q(self), j) == old(dq_at(Q(self), j)))))
    invariant(len(out(self)) == len(old(out(self))) + (dq_head(Q(self)) - old(dq_head(Q(self)))))
    invariant(sent_in_order(self, old(dq_head(Q(self))), dq_head(Q(self)), len(old(out(self))), dup))
    invariant(len(W(self)) <= old(len(W(self))) or len(W(self)) <= self._window)
    invariant(implies(old(alarms_set(self)), alarms_set(self)))
    invariant(same_containers(self))
    invariant(unchanged(self._pingReq.alarm) and conn_untouched(self))
    invariant(forall(lambda k: contains(R(self), k) == old(contains(R(self), k)) and R(self)[k] == old(R(self)[k])))
    invariant(forall(lambda k: contains(S(self), k) == old(contains(S(self), k)) and S(self)[k] == old(S(self)[k])))
    invariant(forall(lambda k: contains(U(self), k) == old(contains(U(self), k)) and U(self)[k] == old(U(self)[k])))
    invariant(forall(lambda k: contains(X(self), k) == old(contains(X(self), k)) and X(self)[k] == old(X(self)[k])))
    decreases(dq_len(Q(self)))


# ---------------------------------------------------------------- PUBACK (QoS 1)
@contract('mqtt.client.pubsubs.MQTTProtocol.handlePUBACK', props=['C05', 'C10', 'C16', 'C13'])
def _(self: Ref['mqtt.client.pubsubs.MQTTProtocol'], response: Ref['mqtt.pdu.PUBACK']):
    requires(is_obj(self.addr))
    requires(live(self) and ping_ok(self))
    requires(is_int(response.msgId))
    id = as_int(response.msgId)
    hit = contains(W(self), id)
    req = W(self)[id]
    al = as_ref(W(self)[id].alarm)
    qh = dq_head(Q(self))
    modifies(all_but(KEEP))
    ensures(live(self))
    ensures(ping_untouched_by_handler(self))
    # the Deferred of that publish() fires with the identifier it exposes; its timer is cancelled
    ensures(implies(hit, req.deferred.d_fired and req.deferred.d_ok and req.deferred.d_val == id
                    and is_int(al.t_status) and al.t_status == 1))
    # nothing is written except first transmissions released by the freed slot
    ensures(implies(not hit, out(self) == old(out(self)) and no_new_fired()))
    ensures(len(W(self)) <= old(len(W(self))) or len(W(self)) <= self._window)
    ensures(dq_len(Q(self)) == 0 or not hit or (is_int(dq_at(Q(self), dq_head(Q(self))).msgId) and len(W(self)) >= self._window))
    ensures(first_tx(self, qh))


@contract('mqtt.client.pubsubs.MQTTProtocol.handlePUBACK', name='foreign-id', callsite=False, props=['C05', 'C16'])
def _(self: Ref['mqtt.client.pubsubs.MQTTProtocol'], response: Ref['mqtt.pdu.PUBACK']):
    requires(is_obj(self.addr))
    requires(live(self) and ping_ok(self))
    requires(is_int(response.msgId))
    requires(not contains(W(self), response.msgId))
    modifies()


# ---------------------------------------------------------------- PUBREC (QoS 2, step 2)
@contract('mqtt.client.pubsubs.MQTTProtocol.handlePUBREC', props=['C05', 'C09', 'C16', 'C13', 'C02', 'C18'])
def _(self: Ref['mqtt.client.pubsubs.MQTTProtocol'], response: Ref['mqtt.pdu.PUBREC']):
    requires(is_obj(self.addr))
    requires(live(self) and ping_ok(self))
    requires(is_int(response.msgId) and 0 <= response.msgId <= 65535)
    id = as_int(response.msgId)
    hit = contains(W(self), id)
    req = W(self)[id]
    modifies(all_but(KEEP))
    ensures(live(self))
    ensures(ping_untouched_by_handler(self))
    # PUBREL is written only in answer to a PUBREC for an identifier in flight, and then exactly one
    ensures(implies(not hit, out(self) == old(out(self)) and R(self) == old(R(self))))
    ensures(no_new_fired())
    ensures(implies(hit, out(self) == old(out(self)) + lb(sPUBREL(id))))
    # the exchange moves from the publish window to the release window, carrying the unfired Deferred
    ensures(implies(hit, not contains(W(self), id) and contains(R(self), id)
                    and R(self)[id].deferred == old(req.deferred) and not R(self)[id].deferred.d_fired
                    and R(self)[id].g_base == sPUBREL(id)
                    and is_int(req.alarm.t_status) and req.alarm.t_status == 1))


@contract('mqtt.client.pubsubs.MQTTProtocol.handlePUBREC', name='foreign-id', callsite=False, props=['C05', 'C09', 'C16'])
def _(self: Ref['mqtt.client.pubsubs.MQTTProtocol'], response: Ref['mqtt.pdu.PUBREC']):
    requires(is_obj(self.addr))
    requires(live(self) and ping_ok(self))
    requires(is_int(response.msgId))
    requires(not contains(W(self), response.msgId))
    modifies()


# ---------------------------------------------------------------- PUBCOMP (QoS 2, step 4)
@contract('mqtt.client.pubsubs.MQTTProtocol.handlePUBCOMP', props=['C05', 'C09', 'C10', 'C16', 'C13'])
def _(self: Ref['mqtt.client.pubsubs.MQTTProtocol'], response: Ref['mqtt.pdu.PUBCOMP']):
    requires(is_obj(self.addr))
    requires(live(self) and ping_ok(self))
    requires(is_int(response.msgId) or is_none(response.msgId))
    id = as_int(response.msgId)
    hit = is_int(response.msgId) and contains(R(self), id)
    rep = R(self)[id]
    al = as_ref(R(self)[id].alarm)
    qh = dq_head(Q(self))
    modifies(all_but(KEEP))
    ensures(live(self))
    ensures(ping_untouched_by_handler(self))
    ensures(implies(hit, not contains(R(self), id) and rep.deferred.d_fired and rep.deferred.d_ok and rep.deferred.d_val == id
                    and is_int(al.t_status) and al.t_status == 1))
    ensures(implies(not hit, out(self) == old(out(self)) and no_new_fired()))
    ensures(len(W(self)) <= old(len(W(self))) or len(W(self)) <= self._window)
    # the slot freed in the release window lets held-back messages go: nothing that could be sent is left waiting
    ensures(dq_len(Q(self)) == 0 or not hit or (is_int(dq_at(Q(self), dq_head(Q(self))).msgId) and len(W(self)) >= self._window))
    ensures(first_tx(self, qh))


@contract('mqtt.client.pubsubs.MQTTProtocol.handlePUBCOMP', name='foreign-id', callsite=False, props=['C05', 'C09', 'C16'])
def _(self: Ref['mqtt.client.pubsubs.MQTTProtocol'], response: Ref['mqtt.pdu.PUBCOMP']):
    requires(is_obj(self.addr))
    requires(live(self) and ping_ok(self))
    requires(is_int(response.msgId))
    requires(not contains(R(self), response.msgId))
    modifies()


# ghost ownership of the Deferred moves with it from the PUBLISH to the PUBREL
@ghost_at('mqtt.client.pubsubs.MQTTProtocol.handlePUBREC', after='reply.deferred = request.deferred')
def _():
    gset(reply.deferred.d_owner, reply)


@ghost_at('mqtt.client.pubsubs.MQTTProtocol.handlePUBREC', after='reply.encode()')
def _():
    gset(reply.g_base, as_bytes(reply.encoded))
    gset(reply.g_addr, self.addr)
