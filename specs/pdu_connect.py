"""Contracts of mqtt.pdu.CONNECT (C01, C02, C20)."""
from pyvc.speclang import *
from specs.wire import *
from specs.lemmas import *


@spec
def str_ok(s: Str) -> bool:
    return encodable(s) and len(utf8(s)) <= 65535


@contract('mqtt.pdu.CONNECT.encode', props=['C01', 'C02', 'C18', 'C20'])
def _(self: Ref['mqtt.pdu.CONNECT']) -> Bytes:
    requires(is_ver(self.version) and (self.version == v31 or self.version == v311))
    requires(is_bool(self.cleanStart) and is_int(self.keepalive) and is_str(self.clientId))
    requires(is_int(self.willQoS) and 0 <= self.willQoS <= 2 and is_bool(self.willRetain))
    requires((is_none(self.willTopic) and is_none(self.willMessage)) or (is_str(self.willTopic) and is_str(self.willMessage)))
    requires(is_none(self.username) or is_str(self.username))
    requires(is_none(self.password) or is_str(self.password))
    will = is_str(self.willTopic)
    hasuser = is_str(self.username)
    haspass = is_str(self.password)
    raises(ValueError, when=not (0 <= self.keepalive <= 65535))
    raises(ValueError, when=not str_ok(self.clientId))
    raises(ValueError, when=will and not (str_ok(self.willTopic) and str_ok(self.willMessage)))
    raises(ValueError, when=hasuser and not str_ok(self.username))
    raises(ValueError, when=haspass and not str_ok(self.password))
    modifies(self.encoded)
    ensures_raise(unchanged(self.encoded))
    ensures(result == sCONNECT(self.version, self.cleanStart, will, self.willQoS, self.willRetain,
                               self.willTopic, self.willMessage, hasuser, self.username, haspass, self.password,
                               self.keepalive, self.clientId))
    ensures(self.encoded == result)


@contract('mqtt.pdu.CONNECT.decode', name='roundtrip', callsite=False, props=['C01', 'C02'],
          split=['v', 'will', 'hasuser', 'haspass'])
def _(self: Ref['mqtt.pdu.CONNECT'], packet: Bytes, v: Ver, clean: bool, will: bool, wqos: int, wret: bool,
      wtopic: Str, wmsg: Str, hasuser: bool, user: Str, haspass: bool, pw: Str, keepalive: int, cid: Str):
    requires(v == v31 or v == v311)
    requires(0 <= wqos <= 2 and 0 <= keepalive <= 65535)
    requires(str_ok(cid) and str_ok(wtopic) and str_ok(wmsg) and str_ok(user) and str_ok(pw))
    requires(is_none(self.willTopic) and is_none(self.willMessage) and is_none(self.willQoS) and is_none(self.willRetain))
    requires(is_none(self.username) and is_none(self.password))
    requires(packet == sCONNECT(v, clean, will, wqos, wret, wtopic, wmsg, hasuser, user, haspass, pw, keepalive, cid))
    use(frame_body(packet[0], connect_body(v, clean, will, wqos, wret, wtopic, wmsg, hasuser, user, haspass, pw, keepalive, cid)))
    P = mstr(pw) if haspass else seq()
    U = mstr(user) if hasuser else seq()
    W = (mstr(wtopic) + mstr(wmsg)) if will else seq()
    use(mstr_split(proto_name(v), seq(proto_level(v)) + seq(connect_flags(clean, will, wqos, wret, hasuser, haspass)) + u16(keepalive) + mstr(cid) + W + U + P))
    use(mstr_split(cid, W + U + P))
    use(mstr_split(wtopic, mstr(wmsg) + U + P))
    use(mstr_split(wmsg, U + P))
    use(mstr_split(user, P))
    use(mstr_split(pw, seq()))
    modifies(self.encoded, self.version, self.cleanStart, self.keepalive, self.clientId, self.willRetain, self.willQoS,
             self.willTopic, self.willMessage, self.username, self.password)
    ensures(self.version == v and self.cleanStart == clean and self.keepalive == keepalive)
    ensures(self.clientId == cid)
    ensures((self.willTopic == wtopic and self.willMessage == wmsg and self.willQoS == wqos and self.willRetain == wret)
            if will else (is_none(self.willTopic) and is_none(self.willMessage)))
    ensures(self.username == user if hasuser else is_none(self.username))
    ensures(self.password == utf8(pw) if haspass else is_none(self.password))
    ensures(self.encoded == packet)


# ghost assertions inside CONNECT.decode (attached by statement text): what is left to parse after each field
@ghost_at('mqtt.pdu.CONNECT.decode', after='version_str, packet_remaining = decodeString(packet_remaining)', contract='roundtrip')
def _():
    P = mstr(pw) if haspass else seq()
    U = mstr(user) if hasuser else seq()
    W = (mstr(wtopic) + mstr(wmsg)) if will else seq()
    hint(packet_remaining == seq(proto_level(v)) + seq(connect_flags(clean, will, wqos, wret, hasuser, haspass)) + u16(keepalive) + mstr(cid) + W + U + P)


@ghost_at('mqtt.pdu.CONNECT.decode', after='packet_remaining = packet_remaining[2:]', nth=1, contract='roundtrip')
def _():
    P = mstr(pw) if haspass else seq()
    U = mstr(user) if hasuser else seq()
    W = (mstr(wtopic) + mstr(wmsg)) if will else seq()
    hint(packet_remaining == mstr(cid) + W + U + P)


@ghost_at('mqtt.pdu.CONNECT.decode', after='self.clientId, packet_remaining = decodeString(packet_remaining)', contract='roundtrip')
def _():
    P = mstr(pw) if haspass else seq()
    U = mstr(user) if hasuser else seq()
    W = (mstr(wtopic) + mstr(wmsg)) if will else seq()
    hint(packet_remaining == W + U + P)
    hint(implies(will, packet_remaining == mstr(wtopic) + (mstr(wmsg) + U + P)))
    hint(implies(will, packet_remaining[0] * 256 + packet_remaining[1] == len(utf8(wtopic))))


@ghost_at('mqtt.pdu.CONNECT.decode', after='self.willTopic, packet_remaining = decodeString(packet_remaining)', contract='roundtrip')
def _():
    P = mstr(pw) if haspass else seq()
    U = mstr(user) if hasuser else seq()
    hint(packet_remaining == mstr(wmsg) + U + P)
    hint(packet_remaining == mstr(wmsg) + (U + P))
    hint(packet_remaining[0] * 256 + packet_remaining[1] == len(utf8(wmsg)))


@ghost_at('mqtt.pdu.CONNECT.decode', after='self.willMessage, packet_remaining = decodeString(packet_remaining)', contract='roundtrip')
def _():
    P = mstr(pw) if haspass else seq()
    U = mstr(user) if hasuser else seq()
    hint(packet_remaining == U + P)


@ghost_at('mqtt.pdu.CONNECT.decode', after='self.username, packet_remaining = decodeString(packet_remaining)', contract='roundtrip')
def _():
    P = mstr(pw) if haspass else seq()
    hint(packet_remaining == P)
