"""Clauses of the given properties that the current tree does NOT satisfy, stated as contracts of their own so that
each failure is a named obligation.  They are listed as open entries in /verif/known_findings.json (with a witness
history each) and print KNOWN-FINDING lines; nothing else is suppressed."""
from pyvc.speclang import *
from specs.wire import *
from specs.state import *
from specs.inv import *
from specs.acks import *
from specs.connection import *
from specs.api_entry import *


# ghost flags: set where the packets are written
@ghost_at('mqtt.client.base.MQTTBaseProtocol.__init__', after='self._pingReq.pdu = self._pingReq.encode()')
def _():
    gset(self.g_sent_connect, False)
    gset(self.g_sent_disconnect, False)


@ghost_at('mqtt.client.base.MQTTBaseProtocol.doDisconnect', after='self.transport.write(request.encode())')
def _():
    gset(self.g_sent_disconnect, True)


@ghost_at('mqtt.client.base.MQTTBaseProtocol.doConnect', after='self.transport.write(pdu)')
def _():
    gset(self.g_sent_connect, True)


# C18 (D14): nothing may follow the DISCONNECT, but until the transport reports the loss the protocol stays CONNECTED
@contract('mqtt.client.pubsubs.MQTTProtocol.publish', name='after-disconnect', callsite=False, props=['C18'],
          classes=['mqtt.client.pubsubs.MQTTProtocol'])
def _(self: Ref['mqtt.client.pubsubs.MQTTProtocol'], topic: Str, message: Any, qos: int, retain: bool) -> Ref['Deferred']:
    requires(is_obj(self.addr))
    requires(any_state(self) and self.state == self.CONNECTED and self.g_sent_disconnect == True)
    requires(is_str(message) and qos == 0)
    modifies(all_but(KEEP_API))
    ensures(out(self) == old(out(self)))


# C18 (D29): exactly one CONNECT per connection, but after a refused CONNACK the protocol is idle on the same connection
@contract('mqtt.client.base.MQTTBaseProtocol.connect', name='second-connect', callsite=False, props=['C18'],
          classes=['mqtt.client.pubsubs.MQTTProtocol'])
def _(self: Ref['mqtt.client.pubsubs.MQTTProtocol'], clientId: Str, keepalive: int, willTopic: Any, willMessage: Any, willQoS: int,
      willRetain: bool, username: Any, password: Any, cleanStart: bool, version: Ver) -> Ref['Deferred']:
    requires(is_obj(self.addr))
    requires(any_state(self) and self.state == self.IDLE and self.g_sent_connect == True)
    requires(is_none(willTopic) and is_none(willMessage) and is_none(username) and is_none(password))
    modifies(self._cleanStart, self._version, self.transport.tr_out, self.state, self.connReq, self.g_sent_connect, allocates())
    ensures(out(self) == old(out(self)))


# C12 / C10 (D10b): a clean CONNACK must fail what an earlier connection left behind, also the publishes still held
# back in the queue; requests queued on THIS connection (ghost g_conn == self) must be left alone.  The purge only
# looks at the two windows.
@ghost_at('mqtt.client.pubsubs.MQTTProtocol.doPublish', after='request.deferred.msgId = request.msgId', nth=0)
def _():
    gset(request.g_conn, self)


@contract('mqtt.client.pubsubs.MQTTProtocol.mqttConnectionMade', name='clean-resume-queue', callsite=False, props=['C12', 'C10'],
          classes=['mqtt.client.pubsubs.MQTTProtocol'])
def _(self: Ref['mqtt.client.pubsubs.MQTTProtocol']):
    requires(is_obj(self.addr))
    requires(inv(self) and is_list_bytes(self.transport.tr_out) and is_none(self.g_firing) and callbacks_ok(self))
    requires(forall(lambda k: not contains(S(self), k)) and forall(lambda k: not contains(U(self), k)))
    requires(self._cleanStart == True)
    modifies(all_but(KEEP_MADE), callbacks())
    ensures(forall(lambda j: implies(old(dq_head(Q(self))) <= j and j < old(dq_tail(Q(self)))
                                     and old(dq_at(Q(self), j)).qos > 0 and not (old(dq_at(Q(self), j)).g_conn == self),
                                     old(dq_at(Q(self), j)).deferred.d_fired)))
