"""C03: reassembly of packets from arbitrarily chunked data (MQTTBaseProtocol._accumulatePacket)."""
from pyvc.speclang import *
from specs.wire import *
from specs.lemmas import *
from specs.state import *
from specs.connection import *
from specs.api_entry import *


@contract('mqtt.client.base.MQTTBaseProtocol._accumulatePacket', props=['C03', 'C16'], classes=PROFILES)
def _(self: Ref['mqtt.client.pubsubs.MQTTProtocol'], data: Bytes):
    requires(is_obj(self.addr))
    requires(is_bytes(self._buffer) and is_list_bytes(self.g_dispatched))
    requires(any_state(self))
    modifies(all_but(KEEP_RECV), callbacks())
    ensures(any_state(self))
    ensures(self.g_dispatched == old(as_list_bytes(self.g_dispatched)) + frames(old(as_bytes(self._buffer)) + data))
    ensures(self._buffer == rem(old(as_bytes(self._buffer)) + data))


@loop('mqtt.client.base.MQTTBaseProtocol._accumulatePacket', 0)
def _():
    B0 = old(as_bytes(self._buffer)) + data
    D0 = old(as_list_bytes(self.g_dispatched))
    buf = as_bytes(self._buffer)
    invariant(is_none(length))
    invariant(is_obj(self.addr))
    invariant(any_state(self))
    invariant(is_bytes(self._buffer) and is_list_bytes(self.g_dispatched))
    invariant(D0 + frames(B0) == as_list_bytes(self.g_dispatched) + frames(buf))
    invariant(rem(B0) == rem(buf))
    unfold_head(first(buf))
    unfold_exit(first(buf))
    decreases(len(buf))


@loop('mqtt.client.base.MQTTBaseProtocol._accumulatePacket', 1)
def _():
    buf = as_bytes(self._buffer)
    invariant(1 <= lenLen and lenLen <= len(buf))
    invariant(scan(buf, lenLen) == scan(buf, 1))
    decreases(len(buf) - lenLen)


@contract('mqtt.client.base.MQTTBaseProtocol.dataReceived', props=['C03', 'C16'], classes=PROFILES)
def _(self: Ref['mqtt.client.pubsubs.MQTTProtocol'], data: Bytes):
    """the data-receiving entry point: whatever the bytes, no exception escapes and the state invariant is kept"""
    requires(is_obj(self.addr))
    requires(is_bytes(self._buffer) and is_list_bytes(self.g_dispatched))
    requires(any_state(self))
    modifies(all_but(KEEP_RECV), callbacks())
    ensures(any_state(self))
    ensures(self.g_dispatched == old(as_list_bytes(self.g_dispatched)) + frames(old(as_bytes(self._buffer)) + data))
    ensures(self._buffer == rem(old(as_bytes(self._buffer)) + data))


