"""C03: reassembly of packets from arbitrarily chunked data (MQTTBaseProtocol._accumulatePacket)."""
from pyvc.speclang import *
from specs.wire import *
from specs.lemmas import *
from specs.state import *


# The dispatcher: one call per frame, recorded in the ghost log g_dispatched.  Its body is verified against
# this contract in specs/dispatch.py (no exception escapes, _buffer untouched).
@contract('mqtt.client.base.MQTTBaseProtocol._processPacket', name='log', props=['C03'], assumed=True)
def _(self: Ref['mqtt.client.base.MQTTBaseProtocol'], packet: Bytes):
    requires(is_list_bytes(self.g_dispatched))
    modifies(all_but('_buffer'))
    ghost_set(self.g_dispatched, as_list_bytes(self.g_dispatched) + lb(packet))
    ensures(self.g_dispatched == old(as_list_bytes(self.g_dispatched)) + lb(packet))


@contract('mqtt.client.base.MQTTBaseProtocol._accumulatePacket', props=['C03'])
def _(self: Ref['mqtt.client.base.MQTTBaseProtocol'], data: Bytes):
    requires(is_bytes(self._buffer) and is_list_bytes(self.g_dispatched))
    modifies(all_but())
    ensures(self.g_dispatched == old(as_list_bytes(self.g_dispatched)) + frames(old(as_bytes(self._buffer)) + data))
    ensures(self._buffer == rem(old(as_bytes(self._buffer)) + data))


@loop('mqtt.client.base.MQTTBaseProtocol._accumulatePacket', 0)
def _():
    B0 = old(as_bytes(self._buffer)) + data
    D0 = old(as_list_bytes(self.g_dispatched))
    buf = as_bytes(self._buffer)
    invariant(is_none(length))
    invariant(is_bytes(self._buffer) and is_list_bytes(self.g_dispatched))
    invariant(D0 + frames(B0) == as_list_bytes(self.g_dispatched) + frames(buf))
    invariant(rem(B0) == rem(buf))
    unfold_head(first(buf))
    unfold_exit(first(buf))
    decreases(len(buf))


@loop('mqtt.client.base.MQTTBaseProtocol._accumulatePacket', 1)
def _():
    buf = as_bytes(self._buffer)
    invariant(1 <= lenLen and lenLen <= len(buf))
    invariant(scan(buf, lenLen) == scan(buf, 1))
    decreases(len(buf) - lenLen)
