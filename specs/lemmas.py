"""Lemmas (each verified by the engine; induction = recursive use with a decreasing measure)."""
from pyvc.speclang import *
from specs.wire import *


@lemma(decreases='n')
def varint_len(n: int):
    requires(n >= 0)
    if n >= 128:
        varint_len(n // 128)
    ensures(len(varint(n)) >= 1)


@lemma(decreases='n')
def vskip(pre: Bytes, n: int, rest: Bytes):
    """all bytes of a varint but the last have bit 7 set: the header-skipping loop stops on its last byte"""
    requires(n >= 0)
    varint_len(n)
    if n >= 128:
        varint_len(n // 128)
        hint((pre + seq(n % 128 + 128)) + varint(n // 128) + rest == pre + varint(n) + rest)
        vskip(pre + seq(n % 128 + 128), n // 128, rest)
        unfold(scan(pre + varint(n) + rest, len(pre)))
    ensures(scan(pre + varint(n) + rest, len(pre)) == len(pre) + len(varint(n)) - 1)


@lemma
def frame_body(b0: int, B: Bytes):
    """the body of a frame is what was framed, and the frame ends with it"""
    varint_len(len(B))
    vskip(seq(b0), len(B), B)
    unfold(scan(frame(b0, B), 1))
    tail_concat(seq(b0) + varint(len(B)), B)
    ensures(scan(frame(b0, B), 1) == len(varint(len(B))))
    ensures(body(frame(b0, B)) == B)
    ensures(len(frame(b0, B)) == 1 + len(varint(len(B))) + len(B))


@lemma
def tail_concat(a: Bytes, c: Bytes):
    ensures((a + c)[len(a):] == c)
    ensures(len(a + c) == len(a) + len(c))


@lemma(decreases='len(ts) - k')
def sub_split(ts: ListSI, k: int):
    """payload of the first k pairs + payload of the rest = whole payload"""
    requires(0 <= k and k <= len(ts))
    if k < len(ts):
        sub_split(ts, k + 1)
        unfold(sub_pl(ts, k + 1))
    ensures(sub_pl(ts, k) + sub_tail(ts, k) == sub_pl(ts, len(ts)))


@lemma(decreases='len(ts) - k')
def unsub_split(ts: ListStr, k: int):
    requires(0 <= k and k <= len(ts))
    if k < len(ts):
        unsub_split(ts, k + 1)
        unfold(unsub_pl(ts, k + 1))
    ensures(unsub_pl(ts, k) + unsub_tail(ts, k) == unsub_pl(ts, len(ts)))


@lemma(decreases='i')
def suback_at(gs: ListIB, i: int, j: int):
    """byte j of the first i return codes is the code of pair j; there are i of them (free index j)"""
    requires(0 <= i and i <= len(gs))
    if i > 0:
        suback_at(gs, i - 1, j)
    ensures(len(suback_pl(gs, i)) == i)
    ensures(implies(0 <= j and j < i, suback_pl(gs, i)[j] == gs[j][0] + 128 * b2i(gs[j][1])))


@lemma
def mstr_split(s: Str, rest: Bytes):
    """a length-prefixed string followed by anything parses back into the string and that rest"""
    requires(encodable(s) and len(utf8(s)) <= 65535)
    ensures(len(mstr(s) + rest) == 2 + len(utf8(s)) + len(rest))
    ensures((mstr(s) + rest)[0] * 256 + (mstr(s) + rest)[1] == len(utf8(s)))
    ensures((mstr(s) + rest)[2:2 + len(utf8(s))] == utf8(s))
    ensures((mstr(s) + rest)[2 + len(utf8(s)):] == rest)


# ---- framing: everything about the first packet of a stream is decided by the bytes of that packet ------------
@lemma(decreases='len(a) - j')
def scan_prefix(a: Bytes, c: Bytes, j: int):
    requires(0 <= j and scan(a, j) < len(a))
    if j < len(a):
        if a[j] >= 128:
            scan_prefix(a, c, j + 1)
    unfold(scan(a + c, j))
    ensures(scan(a + c, j) == scan(a, j))


@lemma(decreases='len(b) - j')
def scan_ge(b: Bytes, j: int):
    requires(0 <= j)
    if j < len(b):
        if b[j] >= 128:
            scan_ge(b, j + 1)
    unfold(scan(b, j))
    ensures(scan(b, j) >= j)


@lemma(decreases='len(b) - j')
def scan_cut(b: Bytes, n: int, j: int):
    """cutting a stream after the end of its header does not move the end of the header"""
    requires(0 <= j and scan(b, j) < n and n <= len(b))
    scan_ge(b, j)
    unfold(scan(b, j))
    if j < n:
        if b[j] >= 128:
            scan_cut(b, n, j + 1)
    unfold(scan(b[:n], j))
    ensures(scan(b[:n], j) == scan(b, j))


@lemma(decreases='len(a) - j')
def scan_shift(a: Bytes, j: int):
    requires(0 <= j and len(a) >= 1)
    if j + 1 < len(a):
        scan_shift(a, j + 1)
    unfold(scan(a[1:], j))
    ensures(scan(a[1:], j) == scan(a, j + 1) - 1)


@lemma(decreases='len(a)')
def dl_prefix(a: Bytes, c: Bytes):
    requires(scan(a, 0) < len(a))
    if len(a) > 0:
        if a[0] >= 128:
            scan_shift(a, 0)
            hint((a + c)[1:] == a[1:] + c)
            dl_prefix(a[1:], c)
    unfold(dl(a + c))
    ensures(dl(a + c) == dl(a))


@lemma
def first_prefix(a: Bytes, c: Bytes):
    requires(first(a) > 0)
    scan_prefix(a, c, 1)
    scan_shift(a, 0)
    hint((a + c)[1:] == a[1:] + c)
    dl_prefix(a[1:], c)
    ensures(first(a + c) == first(a))


@lemma
def frames_step(X: ListBytes, G: ListBytes, F: ListBytes, c: Bytes, R: ListBytes):
    """re-association used by the framing loop: moving the first frame from the pending list to the dispatched list"""
    requires(X == G + F and F == lb(c) + R)
    ensures(X == (G + lb(c)) + R)


@lemma(decreases='len(a)', solver_ms=40000)
def seg(a: Bytes, c: Bytes):
    """segmentation: feeding a then c dispatches the same frames and leaves the same remainder as feeding a + c"""
    if first(a) > 0:
        first_prefix(a, c)
        hint((a + c)[:first(a)] == a[:first(a)])
        hint((a + c)[first(a):] == a[first(a):] + c)
        seg(a[first(a):], c)
        unfold(frames(a + c))
        unfold(rem(a + c))
    ensures(frames(a + c) == frames(a) + frames(rem(a) + c))
    ensures(rem(a + c) == rem(rem(a) + c))
