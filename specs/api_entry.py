"""C14 (and the entry-point form of C04/C05/C07/C18/C20): the public API methods, per profile and per state.

Each contract is verified once per profile class (classes=PROFILES); the three state objects have the classes the
REAL constructors give them (wf_states), so `self.state.publish(request)` is resolved through the real class table.
"""
from pyvc.speclang import *
from specs.wire import *
from specs.state import *
from specs.inv import *
from specs.retry import *
from specs.acks import *
from specs.session import *
from specs.connection import *
from specs.api_publish import *
from specs.api_subscribe import *


@spec
def can_publish(self: Ref['mqtt.client.pubsubs.MQTTProtocol']) -> bool:
    """publish(): publisher-capable profiles, while connecting or connected"""
    return (not has_class(self, 'mqtt.client.subscriber.MQTTProtocol')) and (self.state == self.CONNECTING or self.state == self.CONNECTED)


@spec
def can_subscribe(self: Ref['mqtt.client.pubsubs.MQTTProtocol']) -> bool:
    """subscribe()/unsubscribe(): subscriber-capable profiles, while connected"""
    return (not has_class(self, 'mqtt.client.publisher.MQTTProtocol')) and self.state == self.CONNECTED


@spec
def refused(d: Ref['Deferred']) -> bool:
    return is_bool(d.d_fired) and d.d_fired and is_bool(d.d_ok) and not d.d_ok and d.d_val == exc('MQTTStateError')


@spec
def any_state(self: Ref['mqtt.client.pubsubs.MQTTProtocol']) -> bool:
    """what holds in every protocol state; while connected every pending entry is driven by its timer; while
    connecting there is exactly one guarded connect Deferred; SUBSCRIBE/UNSUBSCRIBE requests exist only while connected"""
    return (base_ok(self) and implies(self.state == self.CONNECTED, alarms_set(self))
            and implies(self.state == self.CONNECTING, connecting(self) and conn_deferred_owned(self))
            and implies(not (self.state == self.CONNECTED),
                        forall(lambda k: not contains(S(self), k)) and forall(lambda k: not contains(U(self), k))
                        and is_none(self._pingReq.timer) and is_none(self._pingReq.alarm)))


@spec
def pub_args_bad(topic: Str, message: Any, qos: int) -> bool:
    """what publish() must refuse up front (C20): QoS outside 0..2, payload neither str nor bytearray, topic (or str
    payload) not encodable or over-long"""
    return (not (0 <= qos and qos <= 2) or not (is_str(message) or is_bytes(message))
            or not encodable(topic) or len(utf8(topic)) > 65535
            or (is_str(message) and not encodable(message))
            or len(pub_body(qos, topic, 0, utf8(message) if is_str(message) else as_bytes(message))) > 268435455)


@contract('mqtt.client.pubsubs.MQTTProtocol.publish', props=['C14', 'C05', 'C10', 'C20', 'C18'], classes=PROFILES)
def _(self: Ref['mqtt.client.pubsubs.MQTTProtocol'], topic: Str, message: Any, qos: int, retain: bool) -> Ref['Deferred']:
    requires(is_obj(self.addr))
    requires(any_state(self))
    requires(is_str(message) or is_bytes(message) or is_int(message) or is_none(message) or is_real(message) or is_bool(message))
    modifies(all_but(KEEP_API))
    ensures(base_fixed())
    ensures(any_state(self))
    # refused where not allowed: failed with MQTTStateError, nothing written, nothing queued
    ensures(implies(not old(can_publish(self)), refused(result) and out(self) == old(out(self))
                    and dq_tail(Q(self)) == old(dq_tail(Q(self))) and dq_head(Q(self)) == old(dq_head(Q(self)))
                    and len(W(self)) == old(len(W(self)))))
    ensures(implies(old(can_publish(self)), not (result.d_val == exc('MQTTStateError'))
                    or not result.d_fired or result.d_ok))
    # honoured where allowed, in terms of the ARGUMENTS: bad ones fail and leave no trace, good ones are queued once as
    # the PUBLISH packet the specification prescribes for them and complete as their QoS demands
    can = can_publish(self)
    bad = pub_args_bad(topic, message, qos)
    t0 = dq_tail(Q(self))
    ensures(implies(can and bad, result.d_fired and not result.d_ok and is_exc(result.d_val) and out(self) == old(out(self))
                    and dq_tail(Q(self)) == t0 and dq_head(Q(self)) == old(dq_head(Q(self)))))
    ensures(implies(can and not bad, dq_tail(Q(self)) == t0 + 1))
    ensures(implies(can and not bad,
                    dq_at(Q(self), t0).g_base == sPUBLISH(False, qos, retain, topic,
                                                           as_int(dq_at(Q(self), t0).msgId) if qos > 0 else 0,
                                                           utf8(message) if is_str(message) else as_bytes(message))))
    ensures(implies(can and not bad and qos == 0, result.d_fired and result.d_ok and is_none(result.d_val)))
    ensures(implies(can and not bad and qos > 0, not result.d_fired and result.msgId == dq_at(Q(self), t0).msgId
                    and is_int(result.msgId) and 1 <= result.msgId and result.msgId <= 65535))
    ensures(implies(can and not bad, dq_len(Q(self)) == 0 or (is_int(dq_at(Q(self), dq_head(Q(self))).msgId) and len(W(self)) >= self._window)))


@contract('mqtt.client.pubsubs.MQTTProtocol.subscribe', props=['C14', 'C07', 'C20', 'C18'], classes=PROFILES)
def _(self: Ref['mqtt.client.pubsubs.MQTTProtocol'], topics: Any, qos: int) -> Ref['Deferred']:
    requires(is_obj(self.addr))
    requires(any_state(self))
    requires(is_str(topics) or is_pair_si(topics) or is_list_si(topics) or is_int(topics) or is_none(topics))
    modifies(all_but(KEEP_API))
    ensures(base_fixed())
    ensures(any_state(self))
    ensures(implies(not old(can_subscribe(self)), refused(result) and out(self) == old(out(self))
                    and forall(lambda k: contains(S(self), k) == old(contains(S(self), k)))))
    ensures(implies(old(can_subscribe(self)), not (is_bool(result.d_fired) and result.d_fired and result.d_val == exc('MQTTStateError'))))
    # honoured where allowed, in terms of the ARGUMENTS: the three accepted shapes name the same list of (topic, QoS)
    can = can_subscribe(self)
    shape = is_str(topics) or is_pair_si(topics) or is_list_si(topics)
    ts = (lsi(topics, qos) if is_str(topics) else
          (lsi(as_pair_si(topics)[0], as_pair_si(topics)[1]) if is_pair_si(topics) else as_list_si(topics)))
    full = len(S(self)) >= self._window
    bad = full or not shape or topics_bad(ts)
    ensures(implies(can and bad, result.d_fired and not result.d_ok and out(self) == old(out(self))
                    and forall(lambda k: contains(S(self), k) == old(contains(S(self), k)))))
    ensures(implies(can and not bad, out(self) == old(out(self)) + lb(sSUBSCRIBE(self.factory.id, ts))))
    ensures(implies(can and not bad, not result.d_fired and result.msgId == self.factory.id and contains(S(self), self.factory.id)
                    and S(self)[self.factory.id].deferred == result))


@contract('mqtt.client.pubsubs.MQTTProtocol.unsubscribe', props=['C14', 'C07', 'C20', 'C18'], classes=PROFILES)
def _(self: Ref['mqtt.client.pubsubs.MQTTProtocol'], topics: Any) -> Ref['Deferred']:
    requires(is_obj(self.addr))
    requires(any_state(self))
    requires(is_str(topics) or is_list_str(topics) or is_int(topics) or is_none(topics) or is_pair_si(topics))
    modifies(all_but(KEEP_API))
    ensures(base_fixed())
    ensures(any_state(self))
    ensures(implies(not old(can_subscribe(self)), refused(result) and out(self) == old(out(self))
                    and forall(lambda k: contains(U(self), k) == old(contains(U(self), k)))))
    ensures(implies(old(can_subscribe(self)), not (is_bool(result.d_fired) and result.d_fired and result.d_val == exc('MQTTStateError'))))
    can = can_subscribe(self)
    shape = is_str(topics) or is_list_str(topics)
    ts = lstr(topics) if is_str(topics) else as_list_str(topics)
    full = len(U(self)) >= self._window
    bad = full or not shape or strs_bad(ts)
    ensures(implies(can and bad, result.d_fired and not result.d_ok and out(self) == old(out(self))
                    and forall(lambda k: contains(U(self), k) == old(contains(U(self), k)))))
    ensures(implies(can and not bad, out(self) == old(out(self)) + lb(sUNSUBSCRIBE(self.factory.id, ts))))
    ensures(implies(can and not bad, not result.d_fired and result.msgId == self.factory.id and contains(U(self), self.factory.id)
                    and U(self)[self.factory.id].deferred == result))


@contract('mqtt.client.base.MQTTBaseProtocol.disconnect', props=['C14', 'C18'], classes=PROFILES)
def _(self: Ref['mqtt.client.pubsubs.MQTTProtocol']):
    requires(is_obj(self.addr))
    requires(any_state(self))
    raises(MQTTStateError, when=not (self.state == self.CONNECTED))
    modifies(self.transport.tr_out, self.transport.tr_closes, self.g_sent_disconnect, allocates())
    ensures_raise(out(self) == old(out(self)) and unchanged(self.transport.tr_closes))
    # DISCONNECT is written only here, together with the request to close
    ensures(out(self) == old(out(self)) + lb(sDISCONNECT()) and self.transport.tr_closes == old(self.transport.tr_closes) + 1)


@contract('mqtt.client.base.MQTTBaseProtocol.connect', props=['C14', 'C04', 'C20', 'C18', 'C02'], classes=PROFILES)
def _(self: Ref['mqtt.client.pubsubs.MQTTProtocol'], clientId: Str, keepalive: int, willTopic: Any, willMessage: Any, willQoS: int,
      willRetain: bool, username: Any, password: Any, cleanStart: bool, version: Ver) -> Ref['Deferred']:
    requires(is_obj(self.addr))
    requires(any_state(self))
    requires((is_none(willTopic) or is_str(willTopic)) and (is_none(willMessage) or is_str(willMessage))
             and (is_none(username) or is_str(username)) and (is_none(password) or is_str(password)))
    bad = (not (0 <= willQoS and willQoS <= 2) or not (0 <= keepalive and keepalive <= 65535)
           or (version == v31 and strlen(clientId) > 23) or not (version == v31 or version == v311)
           or (is_str(willMessage) and is_none(willTopic)) or (is_none(willMessage) and is_str(willTopic))
           or (is_none(username) and is_str(password)) or not sok(clientId)
           or (is_str(willTopic) and not (sok(willTopic) and sok(willMessage)))
           or (is_str(username) and not sok(username)) or (is_str(password) and not sok(password)))
    idle = self.state == self.IDLE
    modifies(self._cleanStart, self._version, self.transport.tr_out, self.state, self.connReq, self.g_sent_connect, allocates())
    ensures(base_ok(self))
    ensures(implies(self.state == self.CONNECTED, alarms_set(self)))
    ensures(implies(self.state == self.CONNECTING, connecting(self)))
    ensures(implies(self.state == self.CONNECTING, conn_deferred_owned(self)))
    ensures(implies(not (self.state == self.CONNECTED), forall(lambda k: not contains(S(self), k)) and forall(lambda k: not contains(U(self), k))
                    and is_none(self._pingReq.timer) and is_none(self._pingReq.alarm)))
    ensures(is_bool(result.d_fired))
    # honoured only on an idle protocol
    ensures(implies(not idle, refused(result) and out(self) == old(out(self)) and unchanged(self.state, self.connReq)))
    # invalid arguments: ValueError, nothing written, no timer, still idle
    ensures(implies(idle and bad, result.d_fired and not result.d_ok and is_exc(result.d_val) and not (result.d_val == exc('MQTTStateError'))
                    and out(self) == old(out(self)) and unchanged(self.state, self.connReq)))
    # valid arguments: exactly one CONNECT, now connecting
    ensures(implies(idle and not bad,
                    out(self) == old(out(self)) + lb(sCONNECT(version, cleanStart, is_str(willTopic), willQoS, willRetain, willTopic,
                                                             willMessage, is_str(username), username, is_str(password), password,
                                                             keepalive, clientId))
                    and self.state == self.CONNECTING and result == self.connReq.deferred and not result.d_fired
                    and num(self.connReq.alarm.t_delay) == (num(keepalive) if keepalive != 0 else 10)
                    and self.connReq.keepalive == keepalive and self._cleanStart == cleanStart and self._version == version))
