"""Contracts of the fixed-size packets of mqtt/pdu.py (C01, C02, C16).  Generated layout, hand-written clauses."""
from pyvc.speclang import *
from specs.wire import *
from specs.lemmas import *

HEADER_LOOPS = ['mqtt.pdu.%s.decode' % c for c in ('CONNECT', 'CONNACK', 'SUBSCRIBE', 'SUBACK', 'UNSUBSCRIBE',
                'UNSUBACK', 'PUBLISH', 'PUBACK', 'PUBREC', 'PUBREL', 'PUBCOMP')]


# the loop every decode() starts with: while packet[lenLen] & 0x80: lenLen += 1
@loop(['mqtt.pdu.CONNECT.decode', 'mqtt.pdu.CONNACK.decode', 'mqtt.pdu.SUBSCRIBE.decode', 'mqtt.pdu.SUBACK.decode',
       'mqtt.pdu.UNSUBSCRIBE.decode', 'mqtt.pdu.UNSUBACK.decode', 'mqtt.pdu.PUBLISH.decode', 'mqtt.pdu.PUBACK.decode',
       'mqtt.pdu.PUBREC.decode', 'mqtt.pdu.PUBREL.decode', 'mqtt.pdu.PUBCOMP.decode'], 0)
def _():
    invariant(1 <= lenLen)
    invariant(scan(packet, lenLen) == scan(packet, 1))
    hint_exit(lenLen == scan(packet, 1))
    decreases(len(packet) - lenLen)


# ---------------------------------------------------------------- PUBACK
@contract('mqtt.pdu.PUBACK.encode', props=['C01', 'C02', 'C18'])
def _(self: Ref['mqtt.pdu.PUBACK']) -> Bytes:
    requires(is_int(self.msgId))
    raises(ValueError, when=not (0 <= self.msgId <= 65535))
    modifies(self.encoded)
    ensures(result == sPUBACK(self.msgId))
    ensures(self.encoded == result)


@contract('mqtt.pdu.PUBACK.decode', name='roundtrip', callsite=False, props=['C01', 'C02'])
def _(self: Ref['mqtt.pdu.PUBACK'], packet: Bytes, id: int):
    requires(0 <= id <= 65535)
    requires(packet == sPUBACK(id))
    use(vskip(seq(packet[0]), 2, u16(id)))
    modifies(self.encoded, self.msgId)
    ensures(self.msgId == id)
    ensures(self.encoded == packet)


@contract('mqtt.pdu.PUBACK.decode', props=['C16'])
def _(self: Ref['mqtt.pdu.PUBACK'], packet: Bytes):
    raises(IndexError, when=len(body(packet)) < 2)
    modifies(self.encoded, self.msgId)
    ensures(len(body(packet)) >= 2)
    ensures(self.msgId == body(packet)[0] * 256 + body(packet)[1])
    ensures(is_int(self.msgId) and 0 <= self.msgId <= 65535)
    ensures(self.encoded == packet)

# ---------------------------------------------------------------- PUBREC
@contract('mqtt.pdu.PUBREC.encode', props=['C01', 'C02', 'C18'])
def _(self: Ref['mqtt.pdu.PUBREC']) -> Bytes:
    requires(is_int(self.msgId))
    raises(ValueError, when=not (0 <= self.msgId <= 65535))
    modifies(self.encoded)
    ensures(result == sPUBREC(self.msgId))
    ensures(self.encoded == result)


@contract('mqtt.pdu.PUBREC.decode', name='roundtrip', callsite=False, props=['C01', 'C02'])
def _(self: Ref['mqtt.pdu.PUBREC'], packet: Bytes, id: int):
    requires(0 <= id <= 65535)
    requires(packet == sPUBREC(id))
    use(vskip(seq(packet[0]), 2, u16(id)))
    modifies(self.encoded, self.msgId)
    ensures(self.msgId == id)
    ensures(self.encoded == packet)


@contract('mqtt.pdu.PUBREC.decode', props=['C16'])
def _(self: Ref['mqtt.pdu.PUBREC'], packet: Bytes):
    raises(IndexError, when=len(body(packet)) < 2)
    modifies(self.encoded, self.msgId)
    ensures(len(body(packet)) >= 2)
    ensures(self.msgId == body(packet)[0] * 256 + body(packet)[1])
    ensures(is_int(self.msgId) and 0 <= self.msgId <= 65535)
    ensures(self.encoded == packet)

# ---------------------------------------------------------------- PUBREL
@contract('mqtt.pdu.PUBREL.encode', props=['C01', 'C02', 'C18'])
def _(self: Ref['mqtt.pdu.PUBREL']) -> Bytes:
    requires(is_int(self.msgId))
    raises(ValueError, when=not (0 <= self.msgId <= 65535))
    modifies(self.encoded)
    ensures(result == sPUBREL(self.msgId))
    ensures(self.encoded == result)


@contract('mqtt.pdu.PUBREL.decode', name='roundtrip', callsite=False, props=['C01', 'C02'])
def _(self: Ref['mqtt.pdu.PUBREL'], packet: Bytes, id: int):
    requires(0 <= id <= 65535)
    requires(packet == sPUBREL(id))
    use(vskip(seq(packet[0]), 2, u16(id)))
    modifies(self.encoded, self.msgId, self.dup)
    ensures(self.msgId == id)
    ensures(self.dup == False)
    ensures(self.encoded == packet)


@contract('mqtt.pdu.PUBREL.decode', props=['C16'])
def _(self: Ref['mqtt.pdu.PUBREL'], packet: Bytes):
    raises(IndexError, when=len(body(packet)) < 2)
    modifies(self.encoded, self.msgId, self.dup)
    ensures(len(body(packet)) >= 2)
    ensures(self.msgId == body(packet)[0] * 256 + body(packet)[1])
    ensures(self.dup == ((packet[0] // 8) % 2 == 1))
    ensures(is_int(self.msgId) and 0 <= self.msgId <= 65535)
    ensures(self.encoded == packet)

# ---------------------------------------------------------------- PUBCOMP
@contract('mqtt.pdu.PUBCOMP.encode', props=['C01', 'C02', 'C18'])
def _(self: Ref['mqtt.pdu.PUBCOMP']) -> Bytes:
    requires(is_int(self.msgId))
    raises(ValueError, when=not (0 <= self.msgId <= 65535))
    modifies(self.encoded)
    ensures(result == sPUBCOMP(self.msgId))
    ensures(self.encoded == result)


@contract('mqtt.pdu.PUBCOMP.decode', name='roundtrip', callsite=False, props=['C01', 'C02'])
def _(self: Ref['mqtt.pdu.PUBCOMP'], packet: Bytes, id: int):
    requires(0 <= id <= 65535)
    requires(packet == sPUBCOMP(id))
    use(vskip(seq(packet[0]), 2, u16(id)))
    modifies(self.encoded, self.msgId)
    ensures(self.msgId == id)
    ensures(self.encoded == packet)


@contract('mqtt.pdu.PUBCOMP.decode', props=['C16'])
def _(self: Ref['mqtt.pdu.PUBCOMP'], packet: Bytes):
    raises(IndexError, when=len(body(packet)) < 2)
    ensures_raise(unchanged(self.msgId))
    modifies(self.encoded, self.msgId)
    ensures(len(body(packet)) >= 2)
    ensures(self.msgId == body(packet)[0] * 256 + body(packet)[1])
    ensures(is_int(self.msgId) and 0 <= self.msgId <= 65535)
    ensures(self.encoded == packet)

# ---------------------------------------------------------------- UNSUBACK
@contract('mqtt.pdu.UNSUBACK.encode', props=['C01', 'C02', 'C18'])
def _(self: Ref['mqtt.pdu.UNSUBACK']) -> Bytes:
    requires(is_int(self.msgId))
    raises(ValueError, when=not (0 <= self.msgId <= 65535))
    modifies(self.encoded)
    ensures(result == sUNSUBACK(self.msgId))
    ensures(self.encoded == result)


@contract('mqtt.pdu.UNSUBACK.decode', name='roundtrip', callsite=False, props=['C01', 'C02'])
def _(self: Ref['mqtt.pdu.UNSUBACK'], packet: Bytes, id: int):
    requires(0 <= id <= 65535)
    requires(packet == sUNSUBACK(id))
    use(vskip(seq(packet[0]), 2, u16(id)))
    modifies(self.encoded, self.msgId)
    ensures(self.msgId == id)
    ensures(self.encoded == packet)


@contract('mqtt.pdu.UNSUBACK.decode', props=['C16'])
def _(self: Ref['mqtt.pdu.UNSUBACK'], packet: Bytes):
    raises(IndexError, when=len(body(packet)) < 2)
    modifies(self.encoded, self.msgId)
    ensures(len(body(packet)) >= 2)
    ensures(self.msgId == body(packet)[0] * 256 + body(packet)[1])
    ensures(is_int(self.msgId) and 0 <= self.msgId <= 65535)
    ensures(self.encoded == packet)

# ---------------------------------------------------------------- PINGREQ
@contract('mqtt.pdu.PINGREQ.encode', props=['C01', 'C02', 'C18'])
def _(self: Ref['mqtt.pdu.PINGREQ']) -> Bytes:
    modifies(self.encoded)
    ensures(result == sPINGREQ())
    ensures(self.encoded == result)


@contract('mqtt.pdu.PINGREQ.decode', props=['C01', 'C02', 'C16'])
def _(self: Ref['mqtt.pdu.PINGREQ'], packet: Bytes):
    modifies(self.encoded)
    ensures(self.encoded == packet)

# ---------------------------------------------------------------- PINGRES
@contract('mqtt.pdu.PINGRES.encode', props=['C01', 'C02', 'C18'])
def _(self: Ref['mqtt.pdu.PINGRES']) -> Bytes:
    modifies(self.encoded)
    ensures(result == sPINGRESP())
    ensures(self.encoded == result)


@contract('mqtt.pdu.PINGRES.decode', props=['C01', 'C02', 'C16'])
def _(self: Ref['mqtt.pdu.PINGRES'], packet: Bytes):
    modifies(self.encoded)
    ensures(self.encoded == packet)

# ---------------------------------------------------------------- DISCONNECT
@contract('mqtt.pdu.DISCONNECT.encode', props=['C01', 'C02', 'C18'])
def _(self: Ref['mqtt.pdu.DISCONNECT']) -> Bytes:
    modifies(self.encoded)
    ensures(result == sDISCONNECT())
    ensures(self.encoded == result)


@contract('mqtt.pdu.DISCONNECT.decode', props=['C01', 'C02', 'C16'])
def _(self: Ref['mqtt.pdu.DISCONNECT'], packet: Bytes):
    modifies(self.encoded)
    ensures(self.encoded == packet)

# ---------------------------------------------------------------- CONNACK
@contract('mqtt.pdu.CONNACK.encode', props=['C01', 'C02'])
def _(self: Ref['mqtt.pdu.CONNACK']) -> Bytes:
    requires(is_bool(self.session) and is_int(self.resultCode))
    raises(ValueError, when=not (0 <= self.resultCode <= 255))
    modifies(self.encoded)
    ensures(result == sCONNACK(self.session, self.resultCode))
    ensures(self.encoded == result)


@contract('mqtt.pdu.CONNACK.decode', name='roundtrip', callsite=False, props=['C01', 'C02'])
def _(self: Ref['mqtt.pdu.CONNACK'], packet: Bytes, sp: bool, rc: int):
    requires(0 <= rc <= 255)
    requires(packet == sCONNACK(sp, rc))
    use(vskip(seq(packet[0]), 2, seq(b2i(sp), rc)))
    modifies(self.encoded, self.session, self.resultCode)
    ensures(self.session == sp)
    ensures(self.resultCode == rc)
    ensures(self.encoded == packet)


@contract('mqtt.pdu.CONNACK.decode', props=['C16', 'C04'])
def _(self: Ref['mqtt.pdu.CONNACK'], packet: Bytes):
    raises(IndexError, when=len(body(packet)) < 2)
    modifies(self.encoded, self.session, self.resultCode)
    ensures(len(body(packet)) >= 2)
    ensures(self.session == (body(packet)[0] % 2 == 1))
    ensures(self.resultCode == body(packet)[1])
    ensures(is_bool(self.session) and is_int(self.resultCode) and 0 <= self.resultCode <= 255)
    ensures(self.encoded == packet)
