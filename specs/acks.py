"""C05 / C07 / C09: the acknowledgement handlers (PUBACK, PUBREC, PUBCOMP, SUBACK, UNSUBACK)."""
from pyvc.speclang import *
from specs.wire import *
from specs.state import *
from specs.inv import *
from specs.retry import *

# fields no handler of broker traffic may touch: reassembly buffer and its ghost log, the object graph skeleton,
# and the configuration
KEEP0 = ['_buffer', 'g_dispatched', 'IDLE', 'CONNECTING', 'CONNECTED', 'protocol', 'factory', 'addr', 'transport',
        '_pingReq', 'queuePublishTx', 'windowPublish', 'windowPubRelease', 'windowPubRx', 'windowSubscribe',
        'windowUnsubscribe', '_window', '_initialT', '_bandwith', '_factor', '_version', '_cleanStart',
        'onPublish', 'onDisconnection', 'onMqttConnectionMade',
        'state', 'connReq', 'keepalive', 'timer', 'pdu', 'lc_running', 'lc_interval', 'lc_fn', 'lc_owner',
        'tr_aborts', 'tr_closes', 'cleanStart', 'version', 'session', 'resultCode', 'granted']
KEEP = KEEP0 + ['g_firing', 'id', 'g_base', 'g_addr']
KEEP_API = KEEP0 + ['qos', 'topic', 'retain', 'payload', 'g_firing', 't_status', 't_fn', 't_arg', 't_owner', 't_delay', 'd_fired', 'd_ok', 'd_val', 'd_owner']        # API calls may draw a packet identifier


# what releasing held-back publishes never touches in addition: Deferred outcomes, existing timers, request fields
KEEP_REFILL0 = KEEP0 + ['g_base', 'g_addr', 'd_fired', 'd_ok', 'd_val', 'd_owner', 'deferred', 'msgId', 'qos', 'topic', 'retain',
                        'payload', 't_status', 't_fn', 't_arg', 't_owner', 't_delay', 'q_pos', 'initial', 'factor',
                        'bandwith', 'maxDelay', 'id']
KEEP_REFILL = KEEP_REFILL0 + ['g_firing', 'retries', '$dq', '$dqt']      # refilling only ever pops from the left


@spec
def live(self: Ref['mqtt.client.pubsubs.MQTTProtocol']) -> bool:
    """the invariant of an established connection"""
    return (inv(self) and alarms_set(self) and is_list_bytes(self.transport.tr_out) and is_none(self.g_firing)
            and (is_none(self.onPublish) or is_func(self.onPublish)))


# ---------------------------------------------------------------- SUBACK
@contract('mqtt.client.pubsubs.MQTTProtocol.handleSUBACK', props=['C07', 'C16', 'C13'])
def _(self: Ref['mqtt.client.pubsubs.MQTTProtocol'], response: Ref['mqtt.pdu.SUBACK']):
    requires(is_obj(self.addr))
    requires(live(self) and ping_ok(self))
    requires(is_int(response.msgId) and is_list_ib(response.granted))
    id = as_int(response.msgId)
    hit = contains(S(self), id)
    req = S(self)[id]
    modifies(all_but(KEEP))
    ensures(live(self))
    ensures(ping_untouched_by_handler(self))
    ensures(implies(hit, not contains(S(self), id) and req.deferred.d_fired and req.deferred.d_ok
                    and req.deferred.d_val == response.granted and is_int(req.alarm.t_status) and req.alarm.t_status == 1))
    ensures(forall(lambda k: implies(k != id, contains(S(self), k) == old(contains(S(self), k)) and S(self)[k] == old(S(self)[k]))))
    ensures(out(self) == old(out(self)))
    ensures(implies(not hit, no_new_fired()))


@contract('mqtt.client.pubsubs.MQTTProtocol.handleSUBACK', name='foreign-id', callsite=False, props=['C07', 'C16'])
def _(self: Ref['mqtt.client.pubsubs.MQTTProtocol'], response: Ref['mqtt.pdu.SUBACK']):
    """an acknowledgement bearing an identifier nobody is waiting for changes nothing at all"""
    requires(is_obj(self.addr))
    requires(live(self) and ping_ok(self))
    requires(is_int(response.msgId) and is_list_ib(response.granted))
    requires(not contains(S(self), response.msgId))
    modifies()




# ---------------------------------------------------------------- UNSUBACK
@contract('mqtt.client.pubsubs.MQTTProtocol.handleUNSUBACK', props=['C07', 'C16', 'C13'])
def _(self: Ref['mqtt.client.pubsubs.MQTTProtocol'], response: Ref['mqtt.pdu.UNSUBACK']):
    requires(is_obj(self.addr))
    requires(live(self) and ping_ok(self))
    requires(is_int(response.msgId))
    id = as_int(response.msgId)
    hit = contains(U(self), id)
    req = U(self)[id]
    modifies(all_but(KEEP))
    ensures(live(self))
    ensures(ping_untouched_by_handler(self))
    ensures(implies(hit, not contains(U(self), id) and req.deferred.d_fired and req.deferred.d_ok
                    and req.deferred.d_val == id and is_int(req.alarm.t_status) and req.alarm.t_status == 1))
    ensures(forall(lambda k: implies(k != id, contains(U(self), k) == old(contains(U(self), k)) and U(self)[k] == old(U(self)[k]))))
    ensures(out(self) == old(out(self)))
    ensures(implies(not hit, no_new_fired()))


@contract('mqtt.client.pubsubs.MQTTProtocol.handleUNSUBACK', name='foreign-id', callsite=False, props=['C07', 'C16'])
def _(self: Ref['mqtt.client.pubsubs.MQTTProtocol'], response: Ref['mqtt.pdu.UNSUBACK']):
    requires(is_obj(self.addr))
    requires(live(self) and ping_ok(self))
    requires(is_int(response.msgId))
    requires(not contains(U(self), response.msgId))
    modifies()
