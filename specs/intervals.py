"""C08: the two back-off generators (delays are reals; machine floats treated as reals)."""
from pyvc.speclang import *


@spec
def wf_interval(i: Ref['mqtt.client.interval.Interval']) -> bool:
    return (is_int(i._value) and is_int(i.factor) and is_int(i.maxDelay) and is_int(i.initial)
            and i.factor >= 1 and 1 <= i.initial and i.initial <= i._value and i._value <= i.maxDelay)


@contract('mqtt.client.interval.Interval.__call__', props=['C08'])
def _(self: Ref['mqtt.client.interval.Interval']) -> real:
    requires(wf_interval(self))
    modifies(self._value)
    ensures(wf_interval(self))
    ensures(old(self._value) <= self._value)
    ensures(self._value <= result and result < self._value + 1)
    ensures(result >= self.initial)


@spec
def wf_linear(i: Ref['mqtt.client.interval.IntervalLinear']) -> bool:
    return (is_int(i.initial) and 1 <= i.initial and is_num(i.factor) and num(i.factor) > 0
            and is_num(i.bandwith) and num(i.bandwith) > 0 and is_num(i._k) and num(i._k) > 0)


@contract('mqtt.client.interval.IntervalLinear.__call__', props=['C08'])
def _(self: Ref['mqtt.client.interval.IntervalLinear'], size: int) -> real:
    requires(wf_linear(self) and size >= 0)
    modifies(self._value, self._k)
    ensures(wf_linear(self))
    ensures(num(self._k) == num(old(self._k)) * num(self.factor))
    ensures(num(self._value) == self.initial + num(old(self._k)) * size / num(self.bandwith))
    ensures(num(self._value) <= result and result < num(self._value) + 1)
    ensures(result >= self.initial)
