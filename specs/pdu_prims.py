"""Contracts of the six primitive codecs of mqtt/pdu.py (C01, C02)."""
from pyvc.speclang import *
from specs.wire import *


@contract('mqtt.pdu.encode16Int', props=['C01', 'C02'])
def _(value: int) -> Bytes:
    raises(ValueError, when=not (0 <= value <= 65535))
    modifies()
    ensures(result == u16(value))
    ensures(len(result) == 2)


@contract('mqtt.pdu.decode16Int', props=['C01', 'C02'])
def _(encoded: Bytes) -> int:
    raises(IndexError, when=len(encoded) < 2)
    modifies()
    ensures(result == encoded[0] * 256 + encoded[1])
    ensures(0 <= result <= 65535)


@contract('mqtt.pdu.encodeString', props=['C01', 'C02'])
def _(string: Str) -> Bytes:
    raises(UnicodeEncodeError, when=not encodable(string))
    raises(ValueError, when=encodable(string) and len(utf8(string)) > 65535)
    modifies()
    ensures(result == mstr(string))
    ensures(len(result) == 2 + len(utf8(string)))


@contract('mqtt.pdu.decodeString', props=['C01', 'C02', 'C16'])
def _(encoded: Bytes) -> Tuple[Str, Bytes]:
    n = encoded[0] * 256 + encoded[1]
    raises(IndexError, when=len(encoded) < 2)
    raises(ValueError, when=len(encoded) >= 2 and len(encoded) < 2 + n)
    raises(UnicodeDecodeError, when=len(encoded) >= 2 + n and not valid_utf8(encoded[2:2 + n]))
    modifies()
    ensures(len(encoded) >= 2 + n)
    ensures(result[0] == utf8dec(encoded[2:2 + n]))
    ensures(result[1] == encoded[2 + n:])


@contract('mqtt.pdu.encodeLength', props=['C01', 'C02'])
def _(value: int) -> Bytes:
    requires(value >= 0)
    modifies()
    ensures(result == varint(value))


@loop('mqtt.pdu.encodeLength', 0)
def _():
    invariant(value >= 0)
    invariant(encoded + varint(value) == varint(old(value)))
    decreases(value)


@contract('mqtt.pdu.decodeLength', props=['C01', 'C02', 'C03'])
def _(encoded: Bytes) -> int:
    modifies()
    ensures(result == dl(encoded))
    ensures(result >= 0)


@loop('mqtt.pdu.decodeLength', 0)
def _():
    invariant(multiplier >= 1 and value >= 0)
    invariant(value + multiplier * dl(encoded[idx:]) == dl(encoded))
    hint_back(encoded[idx - 1:][1:] == encoded[idx:])
