#!/usr/bin/env python3
"""Regenerate the seeded-change table of DESIGN.md (section 0) from seeded/*/meta.json and seeded/*/detected.json."""
import json, os, re, glob
V = os.path.dirname(os.path.abspath(__file__))
rows = []
for d in sorted(glob.glob(os.path.join(V, 'seeded', '*'))):
    name = os.path.basename(d)
    try:
        meta = json.load(open(os.path.join(d, 'meta.json')))
    except Exception:
        continue
    det = {}
    if os.path.exists(os.path.join(d, 'detected.json')):
        det = json.load(open(os.path.join(d, 'detected.json')))
    what = ' '.join(str(meta.get('what', '')).split())
    if len(what) > 230:
        what = what[:227] + '...'
    verdicts = []
    for pid, r in (det.get('results') or {}).items():
        viol = [l for l in r['lines'] if l.startswith('VIOLATION')]
        if r['exit'] == 1 and viol:
            m = re.search(r'obligation="([^"]+)"', viol[0])
            ob = m.group(1) if m else ''
            ob = ob.split(' :: ')[-1]
            ob = re.sub(r'^mqtt\.(client\.)?(base|pubsubs|factory|interval|pdu)\.', '', ob)
            tail = ' (no-failing-input-found)' if 'no-failing-input-found' in viol[0] else ' (input replayed on the real code)'
            verdicts.append('%s exit 1: `%s`%s' % (pid, ob[:110].replace('|', '/'), tail))
        elif r['exit'] == 2:
            verdicts.append('%s exit 2 (undecided): %s' % (pid, (r['lines'][0] if r['lines'] else '')[:120].replace('|', '/')))
        else:
            verdicts.append('%s exit %d - NOT caught' % (pid, r['exit']))
    rows.append('| %s | %s | %s |' % (name, what.replace('|', '/'), '; '.join(verdicts) or 'not run'))
table = '| seed | change | verdict of the claimed property\'s check (first failing obligation) |\n|---|---|---|\n' + '\n'.join(rows)
p = os.path.join(V, 'DESIGN.md')
s = open(p).read()
i = s.index('| seed | change |')
j = s.index('\n\n', i)
s = s[:i] + table + s[j:]
open(p, 'w').write(s)
print(len(rows), 'rows')
