#!/bin/bash
# usage: tools_apply_seed.sh <patch.diff> <Cxx> ... : apply to /repo, run checks, revert
patch=$1; shift
cd /repo && git apply "$patch" || { echo "PATCH DOES NOT APPLY"; exit 9; }
cd /verif
for id in "$@"; do python3-vt -m pyvc.check $id --tier=quick 2>&1 | cut -c1-260 | tail -6; echo "  [$id exit ${PIPESTATUS[0]}]"; done
git -C /repo checkout -- . ; git -C /repo status --short | head -3
