"""helpers shared by the known-finding witnesses (run under /venv/bin/python with PYTHONPATH=<repo>/src)"""
from twisted.internet import task
from twisted.test import proto_helpers
from twisted.internet.address import IPv4Address
from mqtt import v311
from mqtt.pdu import CONNACK
from mqtt.client.base import MQTTBaseProtocol
from mqtt.client.factory import MQTTFactory

ADDR = IPv4Address('TCP', 'localhost', 1883)


def setup(profile=None, clean=True, connect=True, rc=0):
    clock = task.Clock()
    MQTTBaseProtocol.callLater = clock.callLater
    f = MQTTFactory(profile if profile is not None else (MQTTFactory.PUBLISHER | MQTTFactory.SUBSCRIBER))
    p = f.buildProtocol(ADDR)
    t = proto_helpers.StringTransport()
    p.makeConnection(t)
    d = None
    if connect:
        d = p.connect("c", keepalive=0, cleanStart=clean, version=v311)
        ack = CONNACK(); ack.session = False; ack.resultCode = rc
        d.addErrback(lambda f: None)
        p.dataReceived(ack.encode())
    return clock, f, p, t, d


def rebuild(f, clean):
    p = f.buildProtocol(ADDR)
    t = proto_helpers.StringTransport()
    p.makeConnection(t)
    d = p.connect("c", keepalive=0, cleanStart=clean, version=v311)
    ack = CONNACK(); ack.session = False; ack.resultCode = 0
    p.dataReceived(ack.encode())
    return p, t
