"""Known finding D15b (C13), a consequence of D15: makeId hands out an identifier that is still in flight, and
`window[request.msgId] = request` in _refillPublish then OVERWRITES the older entry.  The older request's retry timer
stays active although no window entry refers to it any more: it keeps re-sending a PUBLISH that no acknowledgement can
ever complete (the PUBACK for the shared identifier completes the newer request only) - a stray timer.
Exit 1 while present."""
import sys, os
sys.path.insert(0, os.path.dirname(os.path.abspath(__file__)))
from common import *
from mqtt.pdu import PUBACK
clock, f, p, t, d = setup()
p.setWindowSize(4)
t.clear()
fired = []
d1 = p.publish("a/old", "old", qos=1)          # identifier 1, never acknowledged
d1.addCallbacks(lambda v: fired.append(('old', v)), lambda e: fired.append(('old-failed', e)))
first_id = d1.msgId
f.id = first_id - 1                            # the 16-bit counter has wrapped around to just before it
d2 = p.publish("a/new", "new", qos=1)
d2.addCallbacks(lambda v: fired.append(('new', v)), lambda e: fired.append(('new-failed', e)))
if d2.msgId != first_id:
    print("D15b not reproduced: no identifier collision", first_id, d2.msgId); sys.exit(0)
window = f.windowPublish[ADDR]
ack = PUBACK(); ack.msgId = first_id
p.dataReceived(ack.encode())                   # completes the NEWER request only; the window is empty now
t.clear()
clock.advance(60)                              # ... yet the older request's timer is still there and fires
resent = bytes(t.value())
if len(window) == 0 and b"a/old" in resent and ('old', first_id) not in fired:
    print("D15b present: window empty, PUBLISH 'a/old' re-sent by a stray timer (%d bytes), its Deferred never fires" % len(resent))
    sys.exit(1)
print("D15b not reproduced", len(window), resent[:40], fired); sys.exit(0)
