"""Known finding D15 (C17): makeId() hands out an identifier that an unfinished request still carries.
Exit 1 while the defect is present on the tree under PYTHONPATH, 0 once it is gone."""
import sys
from twisted.internet import task
from twisted.test import proto_helpers
from twisted.internet.address import IPv4Address
from mqtt import v311
from mqtt.pdu import CONNACK
from mqtt.client.base import MQTTBaseProtocol
from mqtt.client.factory import MQTTFactory

clock = task.Clock()
MQTTBaseProtocol.callLater = clock.callLater
f = MQTTFactory(MQTTFactory.PUBLISHER)
p = f.buildProtocol(IPv4Address('TCP', 'localhost', 1883))
t = proto_helpers.StringTransport()
p.makeConnection(t)
p.connect("c", keepalive=0, version=v311)
ack = CONNACK(); ack.session = False; ack.resultCode = 0
p.dataReceived(ack.encode())
p.setWindowSize(2)
d1 = p.publish("a", "x", qos=1)          # identifier 1, never acknowledged
f.id = 0                                  # the counter as it is after wrapping around (65535 -> 0)
d2 = p.publish("b", "y", qos=1)
if d2.msgId == d1.msgId and not d1.called:
    print("D15 present: identifier %d given to a new PUBLISH while an unfinished one carries it" % d2.msgId)
    sys.exit(1)
print("D15 not reproduced")
sys.exit(0)
