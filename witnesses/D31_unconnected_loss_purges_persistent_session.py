# witness: a protocol on which connect() was never called (default _cleanStart=True) loses its transport and
# discards the publishes of the persistent session kept in the factory for the same address
import sys
from twisted.test import proto_helpers
from twisted.internet import task, error
from twisted.python import failure
from mqtt.client.factory import MQTTFactory
from mqtt.client.base import MQTTBaseProtocol
from mqtt import v311
from mqtt.pdu import CONNACK
clock = task.Clock(); MQTTBaseProtocol.callLater = clock.callLater
f = MQTTFactory(MQTTFactory.PUBLISHER); addr = ('h', 1883)
def up(connect=True):
    p = f.buildProtocol(addr); t = proto_helpers.StringTransport(); p.makeConnection(t)
    if connect:
        p.connect("c", keepalive=0, cleanStart=False, version=v311)
        a = CONNACK(); a.session = False; a.resultCode = 0; p.dataReceived(a.encode())
    return p, t
p1, t1 = up()
res = []
d = p1.publish(topic="a/b", message="x", qos=1); d.addCallbacks(lambda v: res.append(('ok', v)), lambda e: res.append(('fail', e.type.__name__)))
p1.connectionLost(failure.Failure(error.ConnectionLost()))
assert res == [], res                      # persistent: still pending
p2, t2 = up(connect=False)                 # TCP comes up, drops again before the application calls connect()
p2.connectionLost(failure.Failure(error.ConnectionLost()))
print('after the unconnected protocol was lost:', res, 'window:', dict(f.windowPublish[addr]))
sys.exit(1 if res else 0)
