"""Known finding D17 (C08): the gap between consecutive retransmissions of one PUBLISH can shrink, because each delay is
nominal(k) + a fresh random jitter in [0,1) and for small payloads the nominal part grows by far less than 1 s.
Exit 1 while present (deterministic: random.random is replaced by a fixed sequence)."""
import sys, os
sys.path.insert(0, os.path.dirname(os.path.abspath(__file__)))
from common import *
import mqtt.client.interval as I
seq = iter([0.9, 0.1, 0.5, 0.5, 0.5])
I.random.random = lambda: next(seq)
clock, f, p, t, d = setup()
t.clear()
p.publish("a", "x", qos=1)
times = []
last = len(t.value())
now = 0.0
for step in range(2000):
    clock.advance(0.01); now += 0.01
    if len(t.value()) > last:
        times.append(round(now, 2)); last = len(t.value())
    if len(times) >= 2:
        break
gap1 = times[0]
gap2 = times[1] - times[0]
if gap2 < gap1:
    print("D17 present: first retry after %.2fs, second after a further %.2fs (the gap shrank)" % (gap1, gap2)); sys.exit(1)
print("D17 not reproduced", times); sys.exit(0)
