"""Known finding D14 (C18): bytes are written after the DISCONNECT, before the transport reports the loss. Exit 1 while present."""
import sys, os
sys.path.insert(0, os.path.dirname(os.path.abspath(__file__)))
from common import *
clock, f, p, t, d = setup()
t.clear()
p.disconnect()
after = len(t.value())
p.publish("a/b", "x", qos=0)
if len(t.value()) > after:
    print("D14 present: %d bytes written after DISCONNECT" % (len(t.value()) - after)); sys.exit(1)
print("D14 not reproduced"); sys.exit(0)
