"""Known finding D10b (C12/C10): after a persistent-session loss, a reconnect with cleanStart=True fails the carried-over
publishes of the two windows with MQTTSessionCleared but leaves the held-back ones in the queue (neither failed nor sent).
Exit 1 while present."""
import sys, os
sys.path.insert(0, os.path.dirname(os.path.abspath(__file__)))
from common import *
from twisted.python import failure
from twisted.internet import error
clock, f, p, t, d = setup(clean=False)
res = {}
d1 = p.publish("a", "1", qos=1); d1.addCallbacks(lambda v: res.setdefault(1, 'ok'), lambda e: res.setdefault(1, e.type.__name__))
d2 = p.publish("b", "2", qos=1); d2.addCallbacks(lambda v: res.setdefault(2, 'ok'), lambda e: res.setdefault(2, e.type.__name__))
p.connectionLost(failure.Failure(error.ConnectionDone()))
p2, t2 = rebuild(f, clean=True)
clock.advance(1)
if res.get(1) == 'MQTTSessionCleared' and 2 not in res and len(f.queuePublishTx[ADDR]) == 1:
    print("D10b present: carried-over window entry failed with MQTTSessionCleared, held-back publish left pending in the queue"); sys.exit(1)
print("D10b not reproduced", res); sys.exit(0)
