"""Known finding D29 (C18): a second CONNECT is written on the same connection after a refused CONNACK. Exit 1 while present."""
import sys, os
sys.path.insert(0, os.path.dirname(os.path.abspath(__file__)))
from common import *
clock, f, p, t, d = setup(rc=5)
n = t.value().count(b'\x10')
before = len(t.value())
d2 = p.connect("c", keepalive=0, version=v311)
d2.addErrback(lambda f: None)
if len(t.value()) > before and t.value()[before] == 0x10:
    print("D29 present: second CONNECT written on the same connection after CONNACK return code 5"); sys.exit(1)
print("D29 not reproduced"); sys.exit(0)
