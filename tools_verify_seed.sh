#!/bin/bash
# usage: tools_verify_seed.sh <seed dir> <name>: confirm a seeded change in a fresh scratch worktree, then keep it under /verif/seeded/<name>
src=$1; name=$2
wt=/tmp/vs_$name
git -C /repo worktree remove --force $wt 2>/dev/null
git -C /repo worktree add -q --detach $wt HEAD || exit 9
cp /repo/src/mqtt/_version.py $wt/src/mqtt/_version.py
cd $wt
PYTHONPATH=$wt/src /venv/bin/python $src/demo.py >/tmp/vs_$name.clean.log 2>&1; clean=$?
git apply $src/patch.diff || { echo "patch does not apply"; git -C /repo worktree remove --force $wt; exit 9; }
suite=$(PYTHONPATH=$wt/src /venv/bin/python -m pytest -q -p no:cacheprovider --timeout=900 2>&1 | tail -1)
PYTHONPATH=$wt/src /venv/bin/python $src/demo.py >/tmp/vs_$name.mut.log 2>&1; mut=$?
cd /verif
git -C /repo worktree remove --force $wt
echo "seed $name: demo clean exit=$clean, mutated exit=$mut, suite: $suite"
if [ $clean -eq 0 ] && [ $mut -ne 0 ] && echo "$suite" | grep -q "24 failed, 85 passed"; then
  mkdir -p /verif/seeded/$name && cp $src/patch.diff $src/demo.py /verif/seeded/$name/ && python3 - <<PY
import json
m=json.load(open('$src/meta.json'))
m['confirmed']={'repo_commit':'$(git -C /repo rev-parse --short HEAD)','demo_exit_clean':$clean,'demo_exit_with_patch':$mut,'suite_with_patch':'$suite','how':'fresh scratch worktree of /repo HEAD under /tmp, git apply patch.diff, baseline suite, demo.py; worktree removed afterwards'}
json.dump(m,open('/verif/seeded/$name/meta.json','w'),indent=1)
PY
  echo CONFIRMED
else
  echo NOT-CONFIRMED
fi
