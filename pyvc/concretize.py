"""Turn a z3 counter-model of a failed obligation into concrete inputs for the replay harness."""
import ast, z3
from .values import *


class NotConcrete(Exception):
    pass


def seq_items(e):
    """elements of a concrete z3 sequence value"""
    e = z3.simplify(e)
    out = []

    def walk(t):
        k = t.decl().kind()
        if k == z3.Z3_OP_SEQ_CONCAT:
            for c in t.children():
                walk(c)
        elif k == z3.Z3_OP_SEQ_UNIT:
            out.append(t.arg(0))
        elif k == z3.Z3_OP_SEQ_EMPTY:
            pass
        else:
            raise NotConcrete('sequence value not concrete: %s' % t)
    walk(e)
    return out


def bytes_of(m, t):
    items = seq_items(m.eval(t, model_completion=True))
    vals = []
    for x in items:
        x = z3.simplify(x)
        if not z3.is_int_value(x):
            raise NotConcrete('byte not concrete')
        v = x.as_long()
        if not (0 <= v <= 255):
            raise NotConcrete('model value %d is not a byte (counter-model outside the type invariant of bytes)' % v)
        vals.append(v)
    return vals


def str_of(eng, m, t):
    S = eng.strings
    enc = z3.is_true(m.eval(S.enc(t), model_completion=True))
    try:
        b = bytes_of(m, S.utf8(t))
    except NotConcrete:
        b = [97]
    if len(b) > 200000:
        raise NotConcrete('string too long to materialise')
    if enc:
        try:
            bytes(b).decode('utf-8')
            return {'$str_utf8': b}
        except UnicodeDecodeError:
            return {'$str_utf8': [97] * len(b)}       # keeps the byte length, the quantity the codecs depend on
    # not encodable: a lone surrogate
    return {'$str_utf8': [237, 160, 128]}


def val_of(eng, m, t):
    """python/JSON value of a Val-sorted term in model m"""
    v = m.eval(t, model_completion=True)
    name = v.decl().name()
    k = name[2:]
    if k == 'none':
        return {'$none': 1}
    if k == 'unset':
        raise NotConcrete('unset')
    arg = v.arg(0)
    return plain_of(eng, m, k, arg)


def plain_of(eng, m, k, arg):
    arg = m.eval(arg, model_completion=True)
    if k == 'int':
        return arg.as_long()
    if k == 'bool':
        return z3.is_true(arg)
    if k == 'real':
        return float(arg.as_fraction()) if hasattr(arg, 'as_fraction') else 0.0
    if k == 'str':
        return str_of(eng, m, arg)
    if k == 'bytes':
        return {'$bytes': bytes_of(m, arg)}
    if k == 'ver':
        c = arg.as_long()
        return {'$ver': 'v31' if c == VER_V31 else ('v311' if c == VER_V311 else 'other')}
    if k == 'pair_si':
        return {'$tuple': [plain_of(eng, m, 'str', PairSI.si_s(arg)), plain_of(eng, m, 'int', PairSI.si_i(arg))]}
    if k == 'pair_ib':
        return {'$tuple': [plain_of(eng, m, 'int', PairIB.ib_i(arg)), plain_of(eng, m, 'bool', PairIB.ib_b(arg))]}
    if k in ELEM_OF:
        items = seq_items(arg)
        if len(items) > 2000:
            raise NotConcrete('list too long')
        return {'$list': [plain_of(eng, m, ELEM_OF[k], x) for x in items]}
    raise NotConcrete('kind %s not concretisable' % k)


def value_of(eng, m, v):
    if isinstance(v, VInt):
        return m.eval(v.t, model_completion=True).as_long()
    if isinstance(v, VBool):
        return z3.is_true(m.eval(v.t, model_completion=True))
    if isinstance(v, VBytes):
        return {'$bytes': bytes_of(m, v.t)}
    if isinstance(v, VStr):
        return str_of(eng, m, v.t)
    if isinstance(v, VVer):
        return plain_of(eng, m, 'ver', v.t)
    if isinstance(v, VList):
        return plain_of(eng, m, v.kind, v.t)
    if isinstance(v, VUnion):
        return val_of(eng, m, v.t)
    if isinstance(v, VReal):
        return plain_of(eng, m, 'real', v.t)
    raise NotConcrete('parameter kind %r' % (v,))


def field_arrays(o):
    """names of entry-state field arrays mentioned by the obligation"""
    names = {}
    seen = set()
    stack = list(o.assumptions) + [o.goal]
    while stack:
        t = stack.pop()
        if t.get_id() in seen:
            continue
        seen.add(t.get_id())
        if z3.is_const(t) and t.decl().kind() == z3.Z3_OP_UNINTERPRETED:
            n = t.decl().name()
            if n.startswith('H0_f:'):
                names[n[5:]] = t
        elif z3.is_app(t):
            stack.extend(t.children())
        elif z3.is_quantifier(t):
            stack.append(t.body())
    return names


def concretize(eng, specs, repo, unit, o):
    """returns a dict for pyvc.replay or None"""
    if o.model is None or unit[0] != 'contract':
        return None
    target, cname = unit[1].split('#')
    c = [c for c in specs.contracts[target] if c.name == cname][0]
    found = repo.function(target)
    if found is None:
        return None
    module, ci, fnode, outer = found
    if outer is not None:
        return None
    real = [a.arg for a in fnode.args.args]
    m = o.model
    try:
        args, ghost, self_fields = {}, {}, {}
        for (n, t) in c.params:
            v = o.inputs.get(n)
            if v is None:
                return None
            if n == 'self':
                if ci is None or not ci.qname.startswith('mqtt.pdu.'):
                    return None       # state-machine objects are rebuilt by the handler replay, not here
                for f, arr in field_arrays(o).items():
                    try:
                        self_fields[f] = val_of(eng, m, z3.Select(arr, v.t))
                    except NotConcrete as e:
                        if str(e) != 'unset':
                            raise
                continue
            if isinstance(v, VRef):
                return None
            (args if n in real else ghost)[n] = value_of(eng, m, v)
        return {
            'target': module.name + ':' + (ci.qname.split('.')[-1] + '.' if ci else '') + fnode.name,
            'args': args, 'ghost': ghost, 'self_fields': self_fields,
            'lets': [(n, ast.unparse(e)) for (n, e) in c.lets],
            'requires': [ast.unparse(e) for e in c.requires],
            'raises': [(ecls, ast.unparse(w) if w is not None else None) for (ecls, w) in c.raises],
            'ensures': [ast.unparse(e) for e in c.ensures],
            'ensures_raise': [ast.unparse(e) for e in c.ensures_raise],
        }
    except NotConcrete as e:
        return None
    except Exception as e:
        return None
