"""Mutation sweep: how strong are the contracts?  (development tool and part of the thorough-tier evidence)

For every function of /repo that is the target of a verified contract, generate first-order AST mutants of that
function (one change each), write each into a scratch copy of /repo/src under /tmp and re-run the verification
units that target the function.  A mutant is

  caught     some obligation of those units is no longer discharged (or the unit no longer runs),
  survived   every obligation is still discharged.

Survivors are then run against the repository's own test-suite; a survivor that also passes the tests is either an
equivalent mutant or a hole in the contracts, and is listed for triage.  Nothing here is ever counted as proof.

  python3-vt -m pyvc.mutsweep [-jN] [--out=FILE] [--max-per-fn=N] [--skip=substr,...] [pattern ...]
"""
import ast, copy, hashlib, json, os, shutil, subprocess, sys, tempfile, time
from concurrent.futures import ThreadPoolExecutor, as_completed

VERIF = os.path.dirname(os.path.dirname(os.path.abspath(__file__)))
sys.path.insert(0, VERIF)

CMP = {ast.Lt: ast.LtE, ast.LtE: ast.Lt, ast.Gt: ast.GtE, ast.GtE: ast.Gt, ast.Eq: ast.NotEq, ast.NotEq: ast.Eq,
       ast.Is: ast.IsNot, ast.IsNot: ast.Is, ast.In: ast.NotIn, ast.NotIn: ast.In}
BIN = {ast.Add: ast.Sub, ast.Sub: ast.Add, ast.LShift: ast.RShift, ast.RShift: ast.LShift, ast.BitOr: ast.BitAnd,
       ast.BitAnd: ast.BitOr, ast.Mult: ast.FloorDiv, ast.Mod: ast.FloorDiv}


class Counter(ast.NodeVisitor):
    """enumerates mutation sites of a function in a deterministic order"""

    def __init__(self):
        self.sites = []

    def generic_visit(self, node):
        if isinstance(node, ast.Compare):
            for i, op in enumerate(node.ops):
                if type(op) in CMP:
                    self.sites.append(('cmp', node, i))
        elif isinstance(node, ast.BoolOp):
            self.sites.append(('bool', node, 0))
        elif isinstance(node, ast.UnaryOp) and isinstance(node.op, ast.Not):
            self.sites.append(('not', node, 0))
        elif isinstance(node, ast.BinOp) and type(node.op) in BIN:
            self.sites.append(('bin', node, 0))
        elif isinstance(node, ast.AugAssign) and type(node.op) in BIN:
            self.sites.append(('aug', node, 0))
        elif isinstance(node, ast.Constant):
            if isinstance(node.value, bool):
                self.sites.append(('flip', node, 0))
            elif isinstance(node.value, int):
                self.sites.append(('inc', node, 0))
                self.sites.append(('dec', node, 0))
        if isinstance(node, (ast.If, ast.While)):
            self.sites.append(('negcond', node, 0))
        for fname in ('body', 'orelse', 'finalbody'):
            body = getattr(node, fname, None)
            if isinstance(body, list):
                for j, st in enumerate(body):
                    if isinstance(st, (ast.Expr, ast.Assign, ast.AugAssign, ast.Delete)) and not (
                            isinstance(st, ast.Expr) and isinstance(st.value, ast.Constant)):
                        self.sites.append(('del', node, (fname, j)))
                    if isinstance(st, ast.Return) and st.value is not None and not (
                            isinstance(st.value, ast.Constant) and st.value.value is None):
                        self.sites.append(('retnone', node, (fname, j)))
        super().generic_visit(node)


def mutants_of(fnode):
    """yield (description, mutated copy of fnode)"""
    base = Counter()
    base.visit(fnode)
    for idx, (kind, node, extra) in enumerate(base.sites):
        m = copy.deepcopy(fnode)
        c = Counter()
        c.visit(m)
        k, n, e = c.sites[idx]
        stmt0 = getattr(n, e[0])[e[1]] if k in ('del', 'retnone') else n
        before = ' '.join(ast.unparse(stmt0).split())
        line = getattr(stmt0, 'lineno', 0)
        if k == 'del' and before.startswith(('log.', 'print(')):
            continue
        if k == 'cmp':
            n.ops[e] = CMP[type(n.ops[e])]()
        elif k == 'bool':
            n.op = ast.Or() if isinstance(n.op, ast.And) else ast.And()
        elif k == 'not':
            pass
        elif k in ('bin', 'aug'):
            n.op = BIN[type(n.op)]()
        elif k == 'flip':
            n.value = not n.value
        elif k == 'inc':
            n.value = n.value + 1
        elif k == 'dec':
            n.value = n.value - 1
        elif k == 'negcond':
            n.test = ast.UnaryOp(op=ast.Not(), operand=n.test)
        elif k == 'del':
            getattr(n, e[0])[e[1]] = ast.Pass()
        elif k == 'retnone':
            getattr(n, e[0])[e[1]].value = ast.Constant(value=None)
        if k == 'not':
            m = StripNot(n).visit(m)
        ast.fix_missing_locations(m)
        try:
            after = ast.unparse(n.operand if k == 'not' else (n if k not in ('del', 'retnone') else getattr(n, e[0])[e[1]]))
        except Exception:
            after = '?'
        after = ' '.join(after.split())
        yield ('%s@%d: %s  ->  %s' % (k, line, before[:90], after[:90] if k != 'del' else 'pass'), m)


class StripNot(ast.NodeTransformer):
    def __init__(self, target):
        self.target = target

    def visit(self, node):
        if node is self.target:
            return node.operand
        return super().visit(node)


def targets(specs, repo, pats, skip):
    out = {}
    for target, cs in specs.contracts.items():
        if any(s in target for s in skip):
            continue
        if pats and not any(p in target for p in pats):
            continue
        live = [c for c in cs if not c.options.get('assumed')]
        if not live or repo.function(target) is None:
            continue
        out[target] = live
    return out


def write_mutant(repo, target, mnode, scratch):
    module, ci, fnode, outer = repo.function(target)
    tree = copy.deepcopy(module.tree)
    # locate the same function in the copy by position
    for node in ast.walk(tree):
        if isinstance(node, ast.FunctionDef) and node.name == fnode.name and node.lineno == fnode.lineno:
            node.args, node.body, node.decorator_list = mnode.args, mnode.body, mnode.decorator_list
            break
    else:
        raise RuntimeError('function not found in copy: ' + target)
    ast.fix_missing_locations(tree)
    rel = os.path.relpath(module.path, repo.root)
    shutil.copytree(os.path.join(repo.root, 'src'), os.path.join(scratch, 'src'), ignore=shutil.ignore_patterns('__pycache__'))
    open(os.path.join(scratch, rel), 'w').write(ast.unparse(tree) + '\n')


def run_one(job):
    repo, target, desc, mnode, timeout_s, inner_jobs = job
    scratch = tempfile.mkdtemp(prefix='pyvc_ms_', dir='/tmp')
    t0 = time.time()
    try:
        write_mutant(repo, target, mnode, scratch)
        try:
            r = subprocess.run([sys.executable, '-m', 'pyvc.run', '--repo=' + scratch, '-j%d' % inner_jobs, target + '#', target + '.'],
                               cwd=VERIF, capture_output=True, text=True, timeout=timeout_s)
            tail = r.stdout.strip().splitlines()[-1] if r.stdout.strip() else r.stderr.strip()[-200:]
            verdict = 'survived' if r.returncode == 0 else 'caught'
            first = ''
            if verdict == 'caught':
                bad = [l.strip() for l in r.stdout.splitlines() if l.startswith('    ') and not l.strip().startswith(('trace:', 'model:'))]
                first = bad[0][:200] if bad else tail[:200]
        except subprocess.TimeoutExpired:
            verdict, first = 'timeout', 'the unit run exceeded %d s' % timeout_s
        res = {'target': target, 'mutant': desc, 'verdict': verdict, 'detail': first, 'wall_s': round(time.time() - t0, 1)}
        if verdict == 'survived':
            env = dict(os.environ, PYTHONPATH=os.path.join(scratch, 'src'))
            t = subprocess.run(['/venv/bin/python', '-m', 'pytest', '-q', '-p', 'no:cacheprovider', '--timeout=900'],
                               cwd=scratch, env=env, capture_output=True, text=True)
            last = t.stdout.strip().splitlines()[-1] if t.stdout.strip() else t.stderr[-200:]
            res['suite'] = last
            res['tests_pass'] = ('85 passed' in last and '24 failed' in last)
        return res
    except Exception as ex:
        return {'target': target, 'mutant': desc, 'verdict': 'error', 'detail': repr(ex)[:300]}
    finally:
        shutil.rmtree(scratch, ignore_errors=True)


def main(argv):
    from pyvc import front, run as R
    jobs, out, maxper, skip, pats, tmo = 8, os.path.join(VERIF, 'mutation', 'sweep.jsonl'), 40, [], [], 300
    for a in argv:
        if a.startswith('-j'):
            jobs = int(a[2:])
        elif a.startswith('--out='):
            out = a[6:]
        elif a.startswith('--max-per-fn='):
            maxper = int(a[13:])
        elif a.startswith('--skip='):
            skip = a[7:].split(',')
        elif a.startswith('--timeout='):
            tmo = int(a[10:])
        else:
            pats.append(a)
    repo, specs = R.load()
    tg = targets(specs, repo, pats, skip)
    work = []
    for target in sorted(tg):
        fnode = repo.function(target)[2]
        ms = list(mutants_of(fnode))
        if len(ms) > maxper:       # deterministic thinning
            step = len(ms) / float(maxper)
            ms = [ms[int(i * step)] for i in range(maxper)]
        for desc, m in ms:
            work.append((repo, target, desc, m, tmo, 2))
    print('%d functions under contract, %d mutants' % (len(tg), len(work)), flush=True)
    os.makedirs(os.path.dirname(out), exist_ok=True)
    done = set()
    if os.path.exists(out):
        for l in open(out):
            try:
                d = json.loads(l)
                done.add((d['target'], d['mutant']))
            except Exception:
                pass
    work = [w for w in work if (w[1], w[2]) not in done]
    print('%d to run' % len(work), flush=True)
    import random
    random.Random(1).shuffle(work)
    with open(out, 'a') as f, ThreadPoolExecutor(max_workers=max(1, jobs // 2)) as ex:
        for fut in as_completed([ex.submit(run_one, w) for w in work]):
            res = fut.result()
            f.write(json.dumps(res) + '\n')
            f.flush()
            print(res['verdict'], res['target'].split('.')[-1], '|', res['mutant'][:100], '|', res.get('suite', res.get('detail', ''))[:100], flush=True)


if __name__ == '__main__':
    main(sys.argv[1:])
