"""Sidecar specification language.

Sidecars are ordinary Python files (so spec functions are executable for replay / validation against the
standard's byte vectors) that the engine *parses* with the same front end as the code, so spec expressions
have the semantics of code expressions.  This module is both the runtime shim (`from pyvc.speclang import *`
inside a sidecar) and the loader used by the engine.
"""
import ast, os

# ---------------------------------------------------------------- runtime shim (native execution)
Bytes = bytes
Str = str
real = float


class _T:
    def __init__(self, name):
        self.name = name

    def __getitem__(self, item):
        return self

    def __call__(self, *a, **k):
        return self


Ref = _T('Ref')
Tuple = _T('Tuple')
Opt = _T('Opt')
Obj = _T('Obj')
Ver = _T('Ver')
Any = _T('Any')
ListSI = ListStr = ListIB = ListInt = ListRef = ListBytes = list
Pair = tuple


def seq(*xs):
    return bytes(xs)


def spec(f=None, **kw):
    if f is None:
        return lambda g: g
    return f


def contract(*a, **k):
    return lambda f: None


def loop(*a, **k):
    return lambda f: None


def lemma(f=None, **kw):
    if f is None:
        return lambda g: None
    return None


def invariant_def(f=None, **kw):
    if f is None:
        return lambda g: None
    return None


def ghost_at(*a, **k):
    return lambda f: None


def implies(a, b):
    return (not a) or b


def lb(*xs):
    return [bytes(x) for x in xs]


def lsi(s, i):
    return [(s, i)]


def lstr(s):
    return [s]


def num(x):
    return float(x)


def b2i(b):
    return 1 if b else 0


def utf8(s):
    return s.encode('utf-8')


def strlen(s):
    return len(s)


# ---------------------------------------------------------------- loader (engine side)
class SpecFn:
    def __init__(self, name, node, params, ret, decreases):
        self.name = name
        self.node = node
        self.params = params      # [(name, type)]
        self.ret = ret
        self.decreases = decreases
        self.recursive = False
        self.body = None          # return expression


class Contract:
    def __init__(self, target, node):
        self.target = target
        self.node = node
        self.name = 'main'
        self.props = []
        self.callsite = True
        self.params = []          # [(name, type)]
        self.ret = None
        self.requires = []
        self.ensures = []
        self.raises = []          # (exc class name, when expr | None)
        self.ensures_raise = []
        self.modifies = None      # list of exprs or None (= unconstrained: frame not checked)
        self.pre_ghost = []
        self.post_ghost = []
        self.classes = None       # verify once per concrete class of self
        self.lets = []            # ghost definitions (name, expr), evaluated in the pre-state
        self.ghost_sets = []      # (attribute expr, value expr): ghost field updates performed at entry of the body
        self.options = {}

    @property
    def key(self):
        return self.target + '#' + self.name


class LoopSpec:
    def __init__(self, target, ordinal, node):
        self.target = target
        self.ordinal = ordinal
        self.node = node
        self.invariants = []
        self.decreases = None
        self.head_ghost = []
        self.back_ghost = []
        self.exit_ghost = []
        self.lets = []


class GhostAt:
    def __init__(self, target, after, nth, contract, node):
        self.target = target
        self.after = after
        self.nth = nth
        self.contract = contract
        self.calls = []
        self.lets = []
        self.node = node


class Lemma:
    def __init__(self, name, node, params, decreases):
        self.name = name
        self.node = node
        self.params = params
        self.decreases = decreases
        self.requires = []
        self.ensures = []
        self.props = []


def type_of_annotation(a):
    """annotation ast -> type descriptor (string or tuple)"""
    if a is None:
        return 'Any'
    if isinstance(a, ast.Name):
        return a.id
    if isinstance(a, ast.Constant):
        if a.value is None:
            return 'None'
        return ('Ref', a.value)
    if isinstance(a, ast.Subscript) and isinstance(a.value, ast.Name):
        if a.value.id == 'Ref':
            return ('Ref', ast.literal_eval(a.slice))
        if a.value.id in ('Tuple', 'Pair'):
            elts = a.slice.elts if isinstance(a.slice, ast.Tuple) else [a.slice]
            return ('Tuple', [type_of_annotation(e) for e in elts])
        if a.value.id == 'Opt':
            return ('Opt', type_of_annotation(a.slice))
    if isinstance(a, ast.Call) and isinstance(a.func, ast.Name) and a.func.id == 'Ref':
        return ('Ref', ast.literal_eval(a.args[0]))
    raise ValueError('unsupported annotation ' + ast.dump(a))


class Specs:
    def __init__(self, paths):
        self.funcs = {}
        self.contracts = {}       # target -> [Contract]
        self.loops = {}
        self.lemmas = {}
        self.invdefs = {}
        self.ghost_ats = {}       # target -> [GhostAt]
        self.consts = {}
        self.module_ctx = None
        self.sources = {}
        self.assumption_scan = []
        for p in paths:
            self._load(p, consts_only=True)
        for p in paths:
            self._load(p, consts_only=True)      # second sweep: constants built from constants of later files
        for p in paths:
            self._load(p)
        self._mark_recursive()

    def _load(self, path, consts_only=False):
        src = open(path, encoding='utf-8').read()
        self.sources[path] = src
        for i, line in enumerate(src.splitlines(), 1) if not consts_only else ():
            s = line.split('#')[0]
            for w in ('assume(', 'axiom(', 'trusted('):
                if w in s:
                    self.assumption_scan.append('%s:%d: %s' % (os.path.basename(path), i, line.strip()))
        tree = ast.parse(src, filename=path)
        for node in tree.body:
            if consts_only and not isinstance(node, ast.Assign):
                continue
            if isinstance(node, ast.FunctionDef) and node.decorator_list:
                d = node.decorator_list[0]
                dname = d.func.id if isinstance(d, ast.Call) else d.id
                dargs = d.args if isinstance(d, ast.Call) else []
                dkw = {k.arg: k.value for k in d.keywords} if isinstance(d, ast.Call) else {}
                if dname == 'spec':
                    self._load_spec(node, dkw)
                elif dname == 'contract':
                    self._load_contract(node, dargs, dkw)
                elif dname == 'loop':
                    self._load_loop(node, dargs, dkw)
                elif dname == 'lemma':
                    self._load_lemma(node, dkw)
                elif dname == 'ghost_at':
                    g = GhostAt(ast.literal_eval(dargs[0]), ast.unparse(ast.parse(ast.literal_eval(dkw['after'])).body[0]),
                                ast.literal_eval(dkw['nth']) if 'nth' in dkw else 0,
                                ast.literal_eval(dkw['contract']) if 'contract' in dkw else None, node)
                    for st in node.body:
                        if isinstance(st, ast.Expr) and isinstance(st.value, ast.Constant):
                            continue
                        if isinstance(st, ast.Assign):
                            g.lets.append((st.targets[0].id, st.value))
                        else:
                            g.calls.append(st.value)
                    self.ghost_ats.setdefault(g.target, []).append(g)
                elif dname == 'invariant_def':
                    self._load_spec(node, dkw, table=self.invdefs)
            elif isinstance(node, ast.Assign) and len(node.targets) == 1 and isinstance(node.targets[0], ast.Name):
                try:
                    self.consts[node.targets[0].id] = ('py', ast.literal_eval(node.value))
                except Exception:
                    v = node.value
                    if isinstance(v, ast.BinOp) and isinstance(v.op, ast.Add) and isinstance(v.left, ast.Name) and v.left.id in self.consts:
                        try:
                            self.consts[node.targets[0].id] = ('py', self.consts[v.left.id][1] + ast.literal_eval(v.right))
                        except Exception:
                            pass

    def _params(self, node):
        return [(a.arg, type_of_annotation(a.annotation)) for a in node.args.args]

    def _load_spec(self, node, kw, table=None):
        dec = kw.get('decreases')
        dec = ast.literal_eval(dec) if dec is not None else None
        f = SpecFn(node.name, node, self._params(node), type_of_annotation(node.returns), dec)
        body = [s for s in node.body if not (isinstance(s, ast.Expr) and isinstance(s.value, ast.Constant))]
        if len(body) != 1 or not isinstance(body[0], ast.Return):
            raise ValueError('spec function %s must be a single return expression' % node.name)
        f.body = body[0].value
        f.opaque = bool(ast.literal_eval(kw['opaque'])) if 'opaque' in kw else False
        (table if table is not None else self.funcs)[node.name] = f

    def _load_contract(self, node, args, kw):
        import copy
        kw = {k: (ast.Constant(self.consts[v.id][1]) if isinstance(v, ast.Name) and v.id in self.consts else v) for k, v in kw.items()}
        c = Contract(ast.literal_eval(args[0]), node)
        c.name = ast.literal_eval(kw['name']) if 'name' in kw else 'main'
        c.props = ast.literal_eval(kw['props']) if 'props' in kw else []
        c.callsite = ast.literal_eval(kw['callsite']) if 'callsite' in kw else True
        c.classes = ast.literal_eval(kw['classes']) if 'classes' in kw else None
        for k in kw:
            if k not in ('name', 'props', 'callsite', 'classes'):
                c.options[k] = ast.literal_eval(kw[k])
        c.params = self._params(node)
        c.ret = type_of_annotation(node.returns) if node.returns is not None else None
        seen_ens = False
        for st in node.body:
            if isinstance(st, ast.Expr) and isinstance(st.value, ast.Constant):
                continue
            if isinstance(st, ast.Pass):
                continue
            if isinstance(st, ast.Assign) and len(st.targets) == 1 and isinstance(st.targets[0], ast.Name):
                c.lets.append((st.targets[0].id, st.value))
                continue
            if not (isinstance(st, ast.Expr) and isinstance(st.value, ast.Call) and isinstance(st.value.func, ast.Name)):
                raise ValueError('contract %s: unsupported statement %s' % (c.target, ast.unparse(st)))
            call = st.value
            fn = call.func.id
            if fn == 'requires':
                c.requires.append(call.args[0])
            elif fn == 'ensures':
                seen_ens = True
                c.ensures.append(call.args[0])
            elif fn == 'ensures_raise':
                c.ensures_raise.append(call.args[0])
            elif fn == 'raises':
                when = None
                for k in call.keywords:
                    if k.arg == 'when':
                        when = k.value
                c.raises.append((call.args[0].id, when))
            elif fn == 'modifies':
                c.modifies = (c.modifies or []) + list(call.args)
            elif fn == 'ghost_set':
                c.ghost_sets.append((call.args[0], call.args[1]))
            elif fn in ('use', 'hint', 'unfold', 'gset'):
                (c.post_ghost if seen_ens else c.pre_ghost).append(call)
            elif fn in ('use_post', 'hint_post'):
                c.post_ghost.append(call)
            else:
                raise ValueError('contract %s: unknown clause %s' % (c.target, fn))
        self.contracts.setdefault(c.target, []).append(c)

    def _load_loop(self, node, args, kw):
        targets = ast.literal_eval(args[0])
        if isinstance(targets, list):
            for t in targets:
                self._load_loop(node, [ast.Constant(t), args[1]], kw)
            return
        l = LoopSpec(targets, ast.literal_eval(args[1]), node)
        for st in node.body:
            if isinstance(st, ast.Expr) and isinstance(st.value, ast.Constant):
                continue
            if isinstance(st, ast.Assign) and len(st.targets) == 1 and isinstance(st.targets[0], ast.Name):
                l.lets.append((st.targets[0].id, st.value))
                continue
            call = st.value
            fn = call.func.id
            if fn == 'invariant':
                l.invariants.append(call.args[0])
            elif fn == 'decreases':
                l.decreases = call.args[0]
            elif fn in ('use_head', 'hint_head', 'unfold_head'):
                l.head_ghost.append(call)
            elif fn in ('use_back', 'hint_back', 'unfold_back'):
                l.back_ghost.append(call)
            elif fn in ('use_exit', 'hint_exit', 'unfold_exit'):
                l.exit_ghost.append(call)
            else:
                raise ValueError('loop spec: unknown clause ' + fn)
        self.loops[(l.target, l.ordinal)] = l

    def _load_lemma(self, node, kw):
        dec = kw.get('decreases')
        l = Lemma(node.name, node, self._params(node), dec if dec is None else ast.literal_eval(dec))
        l.props = ast.literal_eval(kw['props']) if 'props' in kw else []
        l.options = {k: ast.literal_eval(v) for k, v in kw.items() if k not in ('props', 'decreases')}
        for st in ast.walk(node):
            if isinstance(st, ast.Expr) and isinstance(st.value, ast.Call) and isinstance(st.value.func, ast.Name):
                if st.value.func.id == 'requires':
                    l.requires.append(st.value.args[0])
                elif st.value.func.id == 'ensures':
                    l.ensures.append(st.value.args[0])
        self.lemmas[node.name] = l

    def _mark_recursive(self):
        for f in list(self.funcs.values()) + list(self.invdefs.values()):
            for n in ast.walk(f.body):
                if isinstance(n, ast.Call) and isinstance(n.func, ast.Name) and n.func.id == f.name:
                    f.recursive = True
            f.self_recursive = f.recursive
            if getattr(f, 'opaque', False):
                f.recursive = True       # handled like recursive ones: uninterpreted + one unfolding per occurrence

    def loop(self, qname, ordinal):
        return self.loops.get((qname, ordinal))

    def callsite_contract(self, qname):
        for c in self.contracts.get(qname, []):
            if c.callsite:
                return c
        return None
