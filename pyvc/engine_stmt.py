"""Engine mixin: statements (incl. loops with invariants, try/except)."""
import ast, z3
from .values import *
from .state import *
from .engine import Res, FnCtx, as_int, as_num, is_num, const_int

NEXT, RET, RAISE, BRK, CONT = 'next', 'return', 'raise', 'break', 'continue'


class VItems(V):
    kind = 'items'

    def __init__(self, d, ks, pairs=True):
        self.d = d
        self.ks = ks
        self.pairs = pairs


class VKeys(V):
    """the keys of a dict enumerated in insertion order: array ka[0..n); pairs: iteration yields (key, value)"""
    kind = 'keys'

    def __init__(self, d, ka, n, pairs, pos=None):
        self.d = d
        self.ka = ka
        self.n = n
        self.pairs = pairs
        self.pos = pos


class VRange(V):
    kind = 'range'

    def __init__(self, lo, hi):
        self.lo = lo
        self.hi = hi


class StmtMixin:

    def ex_block(self, stmts, p, fc):
        """returns list of (kind, path, value)"""
        states = [p]
        outs = []
        gats = self.specs.ghost_ats.get(fc.qname) if (self.specs and not fc.spec) else None
        if gats and fc.node is not None:
            self.check_anchors(fc.qname, fc.node)
        for st in stmts:
            nxt = []
            for q in states:
                for (k, q2, v) in self.ex(st, q, fc):
                    if k == NEXT:
                        if gats:
                            self.apply_ghost_ats(gats, st, q2, fc)
                        nxt.append(q2)
                    else:
                        outs.append((k, q2, v))
            states = nxt
            if len(states) + len(outs) > self.MAX_PATHS:
                raise Unsupported('path explosion in %s' % fc.qname)
            if not states:
                break
        outs.extend((NEXT, q, None) for q in states)
        return outs

    def _simple_stmts(self, fnode):
        return [sub for sub in ast.walk(fnode)
                if isinstance(sub, ast.stmt) and not isinstance(sub, (ast.If, ast.While, ast.For, ast.Try, ast.FunctionDef))]

    @staticmethod
    def _canon(node, local_names):
        """source text of a statement with the function's (non-parameter) local names blanked, and those names in order"""
        import copy
        c = copy.deepcopy(node)
        names = []
        for sub in ast.walk(c):
            if isinstance(sub, ast.Name) and sub.id in local_names:
                names.append(sub.id)
                sub.id = '_'
        return ast.unparse(c), names

    def resolve_anchors(self, qname, fnode):
        """Where do the ghost_at statements of this function attach?  First by the exact source text of the anchor
        statement (nth occurrence); if that text no longer occurs, by its text MODULO LOCAL VARIABLE NAMES, provided that
        match is unique in the function: the renamed locals are then made visible to the ghost statement under their old
        names.  A ghost_at that still finds no anchor makes the unit unsupported (the sidecar is out of date): a proof is
        never silently run without its ghost statements.  Returns {id(stmt): [(ghost_at, {old name: new name})]}."""
        cache = getattr(self, '_anchor_cache', None)
        if cache is None:
            cache = self._anchor_cache = {}
        if qname in cache:
            return cache[qname]
        gats = self.specs.ghost_ats.get(qname) if self.specs else None
        out = {}
        if gats:
            from . import alpha
            stmts = self._simple_stmts(fnode)
            texts = [ast.unparse(s) for s in stmts]
            cur_locals = set(alpha.own_locals(fnode) or [])
            base = (getattr(self.repo, 'alpha_base', None) or {}).get(qname)
            base_locals = set(base['locals']) if base else set()
            for g in gats:
                idx = [k for k, t in enumerate(texts) if t == g.after]
                if len(idx) > g.nth:
                    out.setdefault(id(stmts[idx[g.nth]]), []).append((g, {}))
                    continue
                try:
                    anode = ast.parse(g.after).body[0]
                except SyntaxError:
                    anode = None
                hit = None
                if anode is not None and g.nth == 0:
                    # names of the anchor that are not parameters / globals of the current function: its old locals
                    atext, anames = self._canon(anode, base_locals | cur_locals)
                    cands = []
                    for k, s_ in enumerate(stmts):
                        ctext, cnames = self._canon(s_, cur_locals | base_locals)
                        if ctext == atext and len(cnames) == len(anames):
                            cands.append((k, cnames))
                    if len(cands) == 1:
                        k, cnames = cands[0]
                        ren = {}
                        ok = True
                        for a, b in zip(anames, cnames):
                            if ren.setdefault(a, b) != b:
                                ok = False
                        if ok:
                            hit = (stmts[k], {a: b for a, b in ren.items() if a != b})
                if hit is None:
                    raise Unsupported('ghost_at anchor not found in %s (the sidecar is out of date): %s' % (qname, g.after[:80]))
                out.setdefault(id(hit[0]), []).append((g, hit[1]))
        cache[qname] = out
        return out

    def check_anchors(self, qname, fnode):
        self.resolve_anchors(qname, fnode)

    def apply_ghost_ats(self, gats, st, p, fc):
        """sidecar ghost statements attached after a statement (see resolve_anchors)"""
        if isinstance(st, (ast.If, ast.While, ast.For, ast.Try, ast.FunctionDef)):
            return
        text = ast.unparse(st)
        for (g, renamed) in self.resolve_anchors(fc.qname, fc.node).get(id(st), []):
            if g.contract is not None and g.contract != getattr(self, 'contract_name', None):
                continue
            self.ghost_hits = getattr(self, 'ghost_hits', set())
            self.ghost_hits.add((g.target, g.after, g.nth))
            sfc = FnCtx(self.specs.module_ctx, fc.qname + '/ghost', spec=True)
            sfc.old = fc.old
            saved = p.env
            env = dict(p.ghost.get('genv', {}))
            env.update(p.env)
            for old_name, new_name in renamed.items():      # locals renamed in the code keep their old names in the ghost
                if new_name in env and old_name not in env:
                    env[old_name] = env[new_name]
            p.env = env
            try:
                for (nm, e) in g.lets:
                    p.env[nm] = self.ev(e, p, sfc)[0].v
                self.run_ghost(g.calls, p, sfc, '%s/after:%s' % (fc.qname, text[:40]))
            finally:
                p.env = saved

    def ex(self, st, p, fc):
        m = getattr(self, 'ex_' + type(st).__name__, None)
        if m is None:
            raise Unsupported('statement %s in %s' % (type(st).__name__, fc.qname))
        return m(st, p, fc)

    def lift(self, rs, f=None):
        """expression results -> statement outcomes"""
        out = []
        for r in rs:
            if r.exc is not None:
                out.append((RAISE, r.p, r.exc))
            elif f is None:
                out.append((NEXT, r.p, None))
            else:
                out.extend(f(r.p, r.v))
        return out

    def ex_Pass(self, st, p, fc):
        return [(NEXT, p, None)]

    def ex_Expr(self, st, p, fc):
        if isinstance(st.value, ast.Constant):
            return [(NEXT, p, None)]      # docstring
        return self.lift(self.ev(st.value, p, fc))

    def ex_Assign(self, st, p, fc):
        if len(st.targets) == 1 and isinstance(st.targets[0], ast.Name) and st.targets[0].id == '__all__':
            return [(NEXT, p, None)]

        def f(q, v):
            rs = [Res(q)]
            for t in st.targets:
                nxt = []
                for r in rs:
                    if r.exc is not None:
                        nxt.append(r)
                    else:
                        nxt.extend(self.assign(t, v, r.p, fc))
                rs = nxt
            return self.lift(rs)
        return self.lift(self.ev(st.value, p, fc), f)

    def ex_AugAssign(self, st, p, fc):
        load = ast.copy_location(self._as_load(st.target), st.target)

        def f(q, vs):
            out = []
            for (q1, a) in self.cases(q, vs[0]):
                for (q2, b) in self.cases(q1, vs[1]):
                    for r in self.binop(st.op, a, b, q2, fc, st):
                        if r.exc is not None:
                            out.append((RAISE, r.p, r.exc))
                        else:
                            out.extend(self.lift(self.assign(st.target, r.v, r.p, fc)))
            return out
        return self.lift(self.ev_many([load, st.value], p, fc), f)

    def _as_load(self, t):
        import copy
        n = copy.deepcopy(t)
        for sub in ast.walk(n):
            if hasattr(sub, 'ctx'):
                sub.ctx = ast.Load()
        return n

    def ex_Delete(self, st, p, fc):
        outs = [(NEXT, p, None)]
        for t in st.targets:
            nxt = []
            for (k, q, v) in outs:
                if k != NEXT:
                    nxt.append((k, q, v))
                    continue
                if isinstance(t, ast.Subscript):
                    def f(q2, vs, t=t):
                        out = []
                        for (q3, cls) in self.classof(q2, vs[0]) if isinstance(vs[0], VRef) else self._unsup('del on %r' % (vs[0],)):
                            if cls != 'dict':
                                raise Unsupported('del item of ' + cls)
                            for (q4, key) in self.cases(q3, vs[1]):
                                self.policy_key(q4, vs[0], key, t)
                                out.extend(self.lift(self.dict_del(q4, VRef(vs[0].t, 'dict'), key, fc, t)))
                        return out
                    nxt.extend(self.lift(self.ev_many([t.value, t.slice], q, fc), f))
                elif isinstance(t, ast.Name):
                    q.env[t.id] = None
                    nxt.append((NEXT, q, None))
                else:
                    raise Unsupported('del target')
            outs = nxt
        return outs

    def ex_If(self, st, p, fc):
        def f(q, c):
            out = []
            for (q2, tv) in self.branch(q, c, self.src(st.test)):
                out.extend(self.ex_block(st.body if tv else st.orelse, q2, fc))
            return out
        return self.lift(self.ev(st.test, p, fc), f)

    def ex_Return(self, st, p, fc):
        if st.value is None:
            return [(RET, p, VNone())]
        return self.lift(self.ev(st.value, p, fc), lambda q, v: [(RET, q, v)])

    def ex_Break(self, st, p, fc):
        return [(BRK, p, None)]

    def ex_Continue(self, st, p, fc):
        return [(CONT, p, None)]

    def ex_Raise(self, st, p, fc):
        if st.exc is None:
            raise Unsupported('bare raise')

        def f(q, v):
            if isinstance(v, VClass) and v.exc:
                v = VExc(v.name.split('.')[-1], [], self.src(st))
            if not isinstance(v, VExc):
                raise Unsupported('raise of %r' % (v,))
            v.origin = v.origin or self.src(st)
            return [(RAISE, q, v)]
        return self.lift(self.ev(st.exc, p, fc), f)

    def ex_FunctionDef(self, st, p, fc):
        p.env[st.name] = VFunc('closure', fc.qname + '.' + st.name, node=st, module=fc.module, cls=fc.cls,
                               self_v=p.env.get('self'))
        return [(NEXT, p, None)]

    def ex_ImportFrom(self, st, p, fc):
        for a in st.names:
            target = st.module
            if target in self.repo.modules:
                q = self.repo.resolve_name(self.repo.modules[target], a.name)
                p.env[a.asname or a.name] = self.entity(q, p)
            else:
                raise Unsupported('import from ' + str(target))
        return [(NEXT, p, None)]

    def ex_Try(self, st, p, fc):
        if st.finalbody:
            raise Unsupported('try/finally')
        outs = []
        for (k, q, v) in self.ex_block(st.body, p, fc):
            if k == NEXT:
                outs.extend(self.ex_block(st.orelse, q, fc) if st.orelse else [(NEXT, q, None)])
            elif k == RAISE:
                handled = False
                for h in st.handlers:
                    if self.handler_matches(h, v, q, fc):
                        if h.name:
                            q.env[h.name] = v
                        q.trace.append('caught %s' % v.cls)
                        outs.extend(self.ex_block(h.body, q, fc))
                        handled = True
                        break
                if not handled:
                    outs.append((k, q, v))
            else:
                outs.append((k, q, v))
        return outs

    def handler_matches(self, h, exc, p, fc):
        if h.type is None:
            return True
        types = h.type.elts if isinstance(h.type, ast.Tuple) else [h.type]
        for t in types:
            r = self.ev(t, p, fc)[0].v
            if isinstance(r, VClass):
                if self.exc_subclass(exc.cls, r.name.split('.')[-1]):
                    return True
            else:
                raise Unsupported('except type %r' % (r,))
        return False

    # ------------------------------------------------------------------ loops
    def loop_ordinal(self, fc, node):
        fn = fc.node
        n = 0
        for sub in ast.walk(fn):
            if isinstance(sub, (ast.While, ast.For, ast.ListComp)):
                if sub is node:
                    return n
                n += 1
        raise Unsupported('loop not found in function')

    def ex_While(self, st, p, fc):
        if st.orelse:
            raise Unsupported('while/else')
        return self.run_loop(st, p, fc, None)

    def ex_For(self, st, p, fc):
        if st.orelse:
            raise Unsupported('for/else')

        def f(q, it):
            out = []
            for (q2, itv) in self.cases(q, it):
                out.extend(self.run_loop(st, q2, fc, itv))
            return out
        return self.lift(self.ev(st.iter, p, fc), f)

    def seq_len(self, p, s):
        if isinstance(s, (VBytes, VList)):
            return z3.Length(s.t)
        if isinstance(s, VItems):
            return z3.Length(s.ks)
        if isinstance(s, VKeys):
            return s.n
        if isinstance(s, VRange):
            return z3.If(s.hi > s.lo, s.hi - s.lo, 0)
        if isinstance(s, VConstList):
            return z3.IntVal(len(s.items))
        raise Unsupported('iteration over %r' % (s,))

    def seq_elem(self, p, s, i):
        if isinstance(s, (VBytes, VList)):
            return self.elem_value(p, s, i)
        if isinstance(s, VRange):
            return VInt(s.lo + i)
        if isinstance(s, VKeys):
            k = z3.Select(s.ka, i)
            if not s.pairs:
                return VInt(k)
            v = VRef(z3.Select(harr(p, '$val'), s.d, k))
            self.wf_value(p, v)
            if s.pairs == 'values':
                return v
            return VTuple([VInt(k), v])
        if isinstance(s, VItems):
            k = s.ks[i]
            if not s.pairs:
                return VInt(k)
            v = VRef(z3.Select(harr(p, '$val'), s.d, k))
            self.wf_value(p, v)
            return VTuple([VInt(k), v])
        if isinstance(s, VConstList):
            c = const_int(i)
            if c is None:
                raise Unsupported('iteration over constant python-level list with symbolic index')
            return s.items[c]
        raise Unsupported('iteration element')

    def run_loop(self, st, p, fc, itv):
        ordn = self.loop_ordinal(fc, st)
        spec = self.specs.loop(fc.qname, ordn) if self.specs else None
        is_for = itv is not None
        if is_for and isinstance(itv, VConstList):
            # python-level constant list: unroll exactly
            return self.unroll_const(st, p, fc, itv)
        if spec is None:
            raise Unsupported('loop #%d of %s has no invariant' % (ordn, fc.qname))
        iname = '$i%d' % ordn
        sname = '$seq%d' % ordn
        lname = '%s/loop%d' % (fc.qname, ordn)
        if is_for:
            p.env[iname] = VInt(0)
            p.env[sname] = itv
        # 1. invariant on entry
        self.check_invariants(spec, p, fc, lname + '/inv-entry', ordn, is_for)
        # 2. discover the modified set by fixpoint, then the real run
        mod_locals, mod_heap = set(), set()
        uid0 = Path._uid[0]
        cur_locs = {}
        prev_locs_now = None
        for attempt in range(6):
            saved_obls = len(self.obls)
            head = p.fork()
            self.havoc_for_loop(head, mod_locals, mod_heap, fc, cur_locs)
            head_env = dict(head.env)
            head_heap = dict(head.heap)
            self.assume_invariants(spec, head, fc, ordn, is_for)
            self.loop_ghost(spec, spec.head_ghost, head, fc, ordn, is_for, lname + '/head')
            variant0 = self.eval_variant(spec, head, fc, ordn, is_for)
            outs = []
            exits = []
            # condition
            if is_for:
                n = self.seq_len(head, head.env[sname])
                it = as_int(head.env[iname])
                body_p = head.fork()
                exit_p = head
                cond = it < n
                go_body = feasible(body_p, cond)
                go_exit = feasible(exit_p, z3.Not(cond))
                body_starts = []
                if go_body:
                    body_p.assume(cond)
                    body_p.trace.append('loop%d iterate' % ordn)
                    x = self.seq_elem(body_p, body_p.env[sname], it)
                    body_p.env[iname] = VInt(it + 1)
                    for r in self.assign(st.target, x, body_p, fc):
                        if r.exc is not None:
                            outs.append((RAISE, r.p, r.exc))
                        else:
                            body_starts.append(r.p)
                if go_exit:
                    exit_p.assume(z3.Not(cond))
                    exit_p.trace.append('loop%d done' % ordn)
                    exits.append(exit_p)
            else:
                body_starts = []
                for r in self.ev(st.test, head, fc):
                    if r.exc is not None:
                        outs.append((RAISE, r.p, r.exc))
                        continue
                    for (q, tv) in self.branch(r.p, r.v, self.src(st.test)):
                        if tv:
                            q.trace.append('loop%d iterate' % ordn)
                            body_starts.append(q)
                        else:
                            q.trace.append('loop%d done' % ordn)
                            exits.append(q)
            back = []
            for bp in body_starts:
                for (k, q, v) in self.ex_block(st.body, bp, fc):
                    if k in (NEXT, CONT):
                        back.append(q)
                    elif k == BRK:
                        exits.append(q)
                    else:
                        outs.append((k, q, v))
            # modified sets
            new_l, new_h = set(mod_locals), set(mod_heap)
            locs_found = {}
            for q in back + exits + [o[1] for o in outs]:
                for name, val in q.env.items():
                    if name.startswith('$seq'):
                        continue
                    if name not in head_env or not self.same_value(head_env[name], val):
                        new_l.add(name)
                for name, arr in q.heap.items():
                    if name not in head_heap:
                        # created lazily during the body: base symbol = unchanged unless stored to
                        if not (z3.is_const(arr) and arr.decl().name().startswith('H0_')):
                            new_h.add(name)
                    elif not arr.eq(head_heap[name]):
                        new_h.add(name)
                        if name.startswith('f:'):
                            self._collect_locs(name, arr, head_heap[name], uid0, locs_found)
            locs_now = {k: (None if v is None else sorted(v)) for k, v in locs_found.items()}
            locs_prev = prev_locs_now
            prev_locs_now = locs_now
            cur_locs = {k: (None if v is None else [t for (_, t) in sorted(v.items())]) for k, v in locs_found.items()}
            if new_l == mod_locals and new_h == mod_heap and (locs_prev == locs_now):
                # 3. back edges: invariant preserved, variant decreases
                for q in back:
                    if is_for and isinstance(q.env.get(sname), VKeys) and q.env[sname].pairs:
                        # iterating d.items(): CPython raises RuntimeError if the key set changes during iteration
                        dd = q.env[sname].d
                        kk = z3.Int('it_k')
                        same = z3.ForAll([kk], z3.Select(harr(q, '$dom'), dd, kk) == z3.Select(harr(p, '$dom'), dd, kk))
                        self.oblige(q, lname + '/dict-not-resized-during-iteration', same, 'noraise')
                    self.loop_ghost(spec, spec.back_ghost, q, fc, ordn, is_for, lname + '/back')
                    self.check_invariants(spec, q, fc, lname + '/inv-preserved', ordn, is_for)
                    if variant0 is not None:
                        v1 = self.eval_variant(spec, q, fc, ordn, is_for)
                        self.oblige(q, lname + '/variant', z3.And(variant0 >= 0, v1 < variant0), 'variant')
                res = list(outs)
                for q in exits:
                    self.loop_ghost(spec, spec.exit_ghost, q, fc, ordn, is_for, lname + '/exit')
                res.extend((NEXT, q, None) for q in exits)
                return res
            if __import__('os').environ.get('PYVC_DEBUG'):
                print('loop', lname, 'attempt', attempt, sorted(new_l), sorted(new_h), locs_now)
            mod_locals, mod_heap = new_l, new_h
            del self.obls[saved_obls:]
        raise Unsupported('loop modified-set did not converge in %s' % fc.qname)

    def unroll_const(self, st, p, fc, itv):
        states = [p]
        outs = []
        for item in itv.items:
            nxt = []
            for q in states:
                for r in self.assign(st.target, item, q, fc):
                    if r.exc is not None:
                        outs.append((RAISE, r.p, r.exc))
                        continue
                    for (k, q2, v) in self.ex_block(st.body, r.p, fc):
                        if k in (NEXT, CONT):
                            nxt.append(q2)
                        elif k == BRK:
                            outs.append((NEXT, q2, None))
                        else:
                            outs.append((k, q2, v))
            states = nxt
        outs.extend((NEXT, q, None) for q in states)
        return outs

    def same_value(self, a, b):
        if a is b:
            return True
        if a is None or b is None:
            return False
        if type(a) is not type(b):
            return False
        if hasattr(a, 't') and hasattr(b, 't') and a.t is not None and b.t is not None and not isinstance(a, VFunc):
            return a.t.eq(b.t)
        if isinstance(a, VTuple):
            return len(a.items) == len(b.items) and all(self.same_value(x, y) for x, y in zip(a.items, b.items))
        if isinstance(a, (VNone,)):
            return True
        if isinstance(a, VFunc):
            return a.name == b.name
        if isinstance(a, VClass):
            return a.name == b.name
        return False

    def fresh_like(self, p, name, v):
        if v is None:
            return None
        if isinstance(v, VInt):
            return VInt(fresh(name, I))
        if isinstance(v, VBool):
            return VBool(fresh(name, B))
        if isinstance(v, VReal):
            return VReal(fresh(name, Rl))
        if isinstance(v, VBytes):
            return VBytes(fresh(name, BytesS), v.code)
        if isinstance(v, VStr):
            return VStr(fresh(name, StrS))
        if isinstance(v, VList):
            return VList(fresh(name, z3.SeqSort(KSORT[v.ek])), v.ek)
        if isinstance(v, VRef):
            r = VRef(fresh(name, I), v.cls)
            self.wf_value(p, r)
            if v.cls:
                p.assume(z3.Select(harr(p, '$cls'), r.t) == cls_code(v.cls))
            return r
        if isinstance(v, (VNone, VUnion)):
            # a local that is None / of unknown kind at loop entry may hold any kind later
            return VUnion(fresh(name, Val), name)
        if isinstance(v, VTuple):
            return VTuple([self.fresh_like(p, name, x) for x in v.items])
        raise Unsupported('havoc of local %s = %r' % (name, v))

    def _collect_locs(self, name, arr, head_arr, uid0, out):
        """store indices written to a field array during one iteration; None = some index is not loop-invariant"""
        cur = arr
        if name not in out:
            out[name] = {}
        while not cur.eq(head_arr):
            if z3.is_app(cur) and cur.decl().kind() == z3.Z3_OP_STORE:
                idx = cur.arg(1)
                if out[name] is not None:
                    if self._stable_term(idx, uid0):
                        out[name][idx.sexpr()] = idx
                    else:
                        out[name] = None
                cur = cur.arg(0)
            else:
                out[name] = None
                return

    def _stable_term(self, t, uid0):
        stack = [t]
        seen = set()
        while stack:
            x = stack.pop()
            if x.get_id() in seen:
                continue
            seen.add(x.get_id())
            if z3.is_const(x) and x.decl().kind() == z3.Z3_OP_UNINTERPRETED:
                nm = x.decl().name()
                if '!' in nm:
                    try:
                        if int(nm.rsplit('!', 1)[1]) > uid0:
                            return False
                    except ValueError:
                        pass
            elif z3.is_app(x):
                if x.decl().kind() == z3.Z3_OP_SELECT or x.decl().name().startswith('hv_'):
                    return False
                stack.extend(x.children())
            else:
                return False
        return True

    def havoc_for_loop(self, p, mod_locals, mod_heap, fc, locs=None):
        for name in mod_locals:
            if name in p.env:
                p.env[name] = self.fresh_like(p, name.replace('$', 'it_'), p.env[name])
            else:
                p.env[name] = None
        for name in mod_heap:
            old = p.heap.get(name)
            if name == '$next':
                n = fresh('next', I)
                p.assume(n >= next_ref(p))
                p.heap['$next'] = n
                continue
            sort = old.sort() if old is not None else None
            if sort is None:
                continue
            if locs and locs.get(name):
                # only loop-invariant locations are written: everything else keeps its value (frame)
                arr = old
                for idx in locs[name]:
                    arr = z3.Store(arr, idx, fresh('hv_' + name[2:], Val))
                p.heap[name] = arr
                continue
            p.heap[name] = fresh('hv_' + name.replace(':', '_').replace('#', '_'), sort)

    def loop_fc(self, fc, p, ordn, is_for):
        sfc = FnCtx(self.specs.module_ctx, fc.qname + '/loop', spec=True)
        sfc.old = fc.old
        sfc.code_module = fc.module
        return sfc

    def loop_env(self, p, ordn, is_for, spec=None):
        env = dict(p.ghost.get('genv', {}))
        env.update(p.env)
        if is_for:
            env['idx'] = p.env['$i%d' % ordn]
            s = p.env['$seq%d' % ordn]
            if isinstance(s, VKeys):
                env['keys'] = s
            elif isinstance(s, VItems):
                env['keys'] = VList(s.ks, 'int')
            elif isinstance(s, (VBytes, VList)):
                env['seq_'] = s
        return env

    def loop_ghost(self, spec, calls, p, fc, ordn, is_for, name):
        if not calls:
            return
        sfc = self.loop_fc(fc, p, ordn, is_for)
        saved = p.env
        p.env = self.loop_env(p, ordn, is_for)
        try:
            self.loop_lets(spec, p, sfc)
            self.run_ghost(calls, p, sfc, name)
        finally:
            p.env = saved

    def loop_lets(self, spec, p, sfc):
        for (n, e) in spec.lets:
            rs = self.ev(e, p, sfc)
            if len(rs) != 1 or rs[0].exc is not None:
                raise Unsupported('loop ghost definition forks: ' + n)
            p.env[n] = rs[0].v

    def check_invariants(self, spec, p, fc, name, ordn, is_for):
        sfc = self.loop_fc(fc, p, ordn, is_for)
        saved = p.env
        p.env = self.loop_env(p, ordn, is_for)
        try:
            self.loop_lets(spec, p, sfc)
            if is_for:
                n = self.seq_len(p, saved['$seq%d' % ordn])
                it = as_int(saved['$i%d' % ordn])
                self.oblige(p, name + '/idx', z3.And(it >= 0, it <= n), 'invariant')
            for i, inv in enumerate(spec.invariants):
                t = self.spec_bool(inv, p, sfc)
                self.oblige(p, '%s/%d:%s' % (name, i, self.src(inv)[:60]), t, 'invariant')
        finally:
            p.env = saved

    def assume_invariants(self, spec, p, fc, ordn, is_for):
        sfc = self.loop_fc(fc, p, ordn, is_for)
        saved = p.env
        p.env = self.loop_env(p, ordn, is_for)
        try:
            self.loop_lets(spec, p, sfc)
            if is_for:
                n = self.seq_len(p, saved['$seq%d' % ordn])
                it = as_int(saved['$i%d' % ordn])
                p.assume(z3.And(it >= 0, it <= n))
            for inv in spec.invariants:
                p.assume(self.spec_bool(inv, p, sfc))
        finally:
            p.env = saved

    def eval_variant(self, spec, p, fc, ordn, is_for):
        if is_for:
            n = self.seq_len(p, p.env['$seq%d' % ordn])
            return n - as_int(p.env['$i%d' % ordn])
        if spec.decreases is None:
            return None
        sfc = self.loop_fc(fc, p, ordn, is_for)
        saved = p.env
        p.env = self.loop_env(p, ordn, is_for)
        try:
            self.loop_lets(spec, p, sfc)
            return as_int(self.spec_coerce(self.ev(spec.decreases, p, sfc)[0].v))
        finally:
            p.env = saved

    def spec_bool(self, expr, p, sfc):
        rs = self.ev(expr, p, sfc)
        if len(rs) != 1 or rs[0].exc is not None:
            raise Unsupported('spec expression forked or raised: ' + self.src(expr))
        return self.truth_term(p, rs[0].v)

    # ------------------------------------------------------------------ list comprehension
    def ev_ListComp(self, node, p, fc):
        if len(node.generators) != 1 or node.generators[0].ifs:
            raise Unsupported('comprehension shape')
        g = node.generators[0]

        def f(q, src):
            out = []
            for (q2, s) in self.cases(q, src):
                if not isinstance(s, (VBytes, VList)):
                    raise Unsupported('comprehension over %r' % (s,))
                j = fresh('cj', I)
                q3 = q2.fork()
                q3.assume(z3.And(j >= 0, j < z3.Length(s.t)))
                x = self.elem_value(q3, s, j)
                saved = dict(q3.env)
                npc = len(q3.pc)
                rs = self.assign(g.target, x, q3, fc)
                rs2 = self.ev(node.elt, q3, fc)
                if len(rs2) != 1 or rs2[0].exc is not None or len(rs) != 1:
                    raise Unsupported('comprehension element forks or may raise: ' + self.src(node))
                k, term = storable(rs2[0].v)
                lk = LIST_OF[k]
                res = fresh('comp', KSORT[lk])
                jb = z3.Int('cjb')
                body = z3.substitute(res[j] == term, (j, jb))
                extra = [z3.substitute(a, (j, jb)) for a in q3.pc[npc:]]
                q2.assume(z3.Length(res) == z3.Length(s.t))
                inst_body = z3.Implies(z3.And(jb >= 0, jb < z3.Length(s.t)), z3.And(body, *extra))
                q2.ghost = dict(q2.ghost)
                sch = dict(q2.ghost.get('schemas', {}))
                sch[res.sexpr()] = (lambda idx, ib=inst_body, jb=jb: z3.substitute(ib, (jb, idx)))
                q2.ghost['schemas'] = sch
                q2.assume(z3.ForAll([jb], z3.Implies(z3.And(jb >= 0, jb < z3.Length(s.t)),
                                                     z3.And(body, *extra)), patterns=[res[jb]]))
                out.append(Res(q2, VList(res, k)))
            return out
        return self.bind(self.ev(g.iter, p, fc), f)
