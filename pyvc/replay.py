"""Replay of a verifier counter-model against the real code (z3-free: runs under /venv/bin/python).

  /venv/bin/python -m pyvc.replay <replay.json>     exit 1 = the violation reproduces on the real code
                                                     exit 0 = the real code satisfies the contract on this input
                                                     exit 2 = the input could not be constructed / replay unsupported
A replay file names the failed obligation, carries the solver's counter-model and output, and — where the
model could be turned into concrete inputs — everything needed to call the real function.
"""
import sys, os, json, ast, copy, hashlib, subprocess, importlib

VERIF = os.path.dirname(os.path.dirname(os.path.abspath(__file__)))


# ------------------------------------------------------------------ writer side (called from pyvc.check)
def make_replay(pid, r, o, key, repo_root):
    os.makedirs(os.path.join(VERIF, 'replays'), exist_ok=True)
    h = hashlib.sha1(key.encode()).hexdigest()[:10]
    path = os.path.join(VERIF, 'replays', '%s_%s.json' % (pid, h))
    doc = {'property': pid, 'unit': r['label'], 'obligation': o['name'], 'key': key, 'result': o['result'],
           'backend': o['backend'], 'solver_output': o.get('detail', ''), 'goal': o.get('goal', ''),
           'path_trace': o['trace'], 'model': o.get('model', {}), 'concrete': o.get('concrete'),
           'repo_root': repo_root, 'unit_spec': r.get('unit')}
    with open(path, 'w') as f:
        json.dump(doc, f, indent=1)
    note = ''
    reproduced = False
    if doc['concrete'] is None and r.get('battery') is not None:
        # the solver produced no usable model: search the boundary battery natively for a failing input
        doc['battery'] = r['battery']
        with open(path, 'w') as f:
            json.dump(doc, f, indent=1)
        try:
            out = subprocess.run(['/venv/bin/python', '-m', 'pyvc.replay', path, '--battery'], cwd=VERIF, capture_output=True,
                                 text=True, timeout=300, env=dict(os.environ, PYTHONPATH=VERIF))
            doc = json.load(open(path))
            doc['battery_stdout'] = out.stdout[-1500:]
        except Exception as e:
            doc['battery_stdout'] = 'battery could not run: %r' % (e,)
        with open(path, 'w') as f:
            json.dump(doc, f, indent=1)
    if doc['concrete'] is not None:
        try:
            out = subprocess.run(['/venv/bin/python', '-m', 'pyvc.replay', path], cwd=VERIF, capture_output=True, text=True,
                                 timeout=120, env=dict(os.environ, PYTHONPATH=VERIF))
            reproduced = out.returncode == 1 and 'REPRODUCED on the real code' in out.stdout
            note = (out.stdout.strip().splitlines() or [''])[-1][:300]
            doc['replay_stdout'] = out.stdout[-2000:]
            doc['replay_exit'] = out.returncode
            with open(path, 'w') as f:
                json.dump(doc, f, indent=1)
        except Exception as e:
            note = 'replay could not run: %r' % (e,)
    else:
        note = 'no concrete input could be built from the counter-model (see model / solver_output in the replay file)'
    return path, reproduced, note


# ------------------------------------------------------------------ native evaluation of spec expressions
class _OldRewriter(ast.NodeTransformer):
    def __init__(self):
        self.olds = []

    def visit_Call(self, node):
        self.generic_visit(node)
        if isinstance(node.func, ast.Name) and node.func.id == 'implies' and len(node.args) == 2:
            # implication is lazy in the specification language (the consequent may be undefined when the antecedent is
            # false, e.g. an index outside a list): evaluate it with Python's short-circuit `or`
            return ast.BoolOp(op=ast.Or(), values=[ast.UnaryOp(op=ast.Not(), operand=node.args[0]), node.args[1]])
        if isinstance(node.func, ast.Name) and node.func.id == 'old':
            self.olds.append(node.args[0])
            return ast.Subscript(value=ast.Name(id='__old__', ctx=ast.Load()), slice=ast.Constant(len(self.olds) - 1), ctx=ast.Load())
        if isinstance(node.func, ast.Name) and node.func.id == 'unchanged':
            parts = []
            for a in node.args:
                self.olds.append(a)
                parts.append(ast.Compare(left=a, ops=[ast.Eq()], comparators=[
                    ast.Subscript(value=ast.Name(id='__old__', ctx=ast.Load()), slice=ast.Constant(len(self.olds) - 1), ctx=ast.Load())]))
            return ast.BoolOp(op=ast.And(), values=parts) if len(parts) > 1 else parts[0]
        return node


def native_namespace(repo_root):
    sys.path.insert(0, os.path.join(repo_root, 'src'))
    sys.path.insert(0, VERIF)
    ns = {}
    import glob
    for p in sorted(glob.glob(os.path.join(VERIF, 'specs', '*.py'))):
        name = os.path.basename(p)[:-3]
        if name == '__init__':
            continue
        m = importlib.import_module('specs.' + name)
        for k, v in vars(m).items():
            if not k.startswith('__'):
                ns[k] = v
    import mqtt
    ns['v31'], ns['v311'] = mqtt.v31, mqtt.v311

    def encodable(s):
        try:
            s.encode('utf-8')
            return True
        except Exception:
            return False

    def valid_utf8(b):
        try:
            bytes(b).decode('utf-8')
            return True
        except Exception:
            return False
    isint = lambda x: isinstance(x, int) and not isinstance(x, bool)
    ns.update({
        'encodable': encodable, 'valid_utf8': valid_utf8, 'utf8dec': lambda b: bytes(b).decode('utf-8'),
        'utf8': lambda s: s.encode('utf-8'), 'strlen': len,
        'is_int': isint, 'is_bool': lambda x: isinstance(x, bool), 'is_str': lambda x: isinstance(x, str),
        'is_bytes': lambda x: isinstance(x, (bytes, bytearray)), 'is_none': lambda x: x is None,
        'is_real': lambda x: isinstance(x, float), 'is_ver': lambda x: isinstance(x, dict),
        'is_list_si': lambda x: isinstance(x, list), 'is_list_str': lambda x: isinstance(x, list),
        'is_list_ib': lambda x: isinstance(x, list), 'is_pair_si': lambda x: isinstance(x, tuple),
        'is_ref': lambda x: hasattr(x, '__dict__'), 'is_obj': lambda x: True, 'is_func': callable,
        'as_int': lambda x: x, 'as_bool': lambda x: x, 'as_str': lambda x: x, 'as_bytes': lambda x: bytes(x) if x is not None else None,
        'as_list_si': lambda x: x, 'as_list_str': lambda x: x, 'as_list_ib': lambda x: x, 'as_ref': lambda x: x,
        'implies': lambda a, b: (not a) or b, 'iff': lambda a, b: bool(a) == bool(b),
        'forall': lambda f: all(f(i) for i in range(-2, 600)), 'exists': lambda f: any(f(i) for i in range(-2, 600)),
        'b2i': lambda b: 1 if b else 0, 'contains': lambda d, k: k in d,
    })
    return ns


def native_eval(expr_src, ns, pre_ns):
    tree = ast.parse(expr_src, mode='eval')
    rw = _OldRewriter()
    tree = ast.fix_missing_locations(rw.visit(tree))
    olds = []
    for e in rw.olds:
        olds.append(eval(compile(ast.fix_missing_locations(ast.Expression(e)), '<old>', 'eval'), pre_ns))
    env = dict(ns)
    env['__old__'] = olds
    return eval(compile(tree, '<spec>', 'eval'), env)


def norm(x):
    if isinstance(x, bytearray):
        return bytes(x)
    return x


# ------------------------------------------------------------------ runner side
def build_value(v):
    if isinstance(v, dict) and '$bytes' in v:
        return bytearray(v['$bytes'])
    if isinstance(v, dict) and '$str_utf8' in v:
        return bytes(v['$str_utf8']).decode('utf-8', 'surrogateescape')
    if isinstance(v, dict) and '$ver' in v:
        import mqtt
        return mqtt.v31 if v['$ver'] == 'v31' else (mqtt.v311 if v['$ver'] == 'v311' else {'level': 9, 'tag': 'x'})
    if isinstance(v, dict) and '$list' in v:
        return [build_value(x) for x in v['$list']]
    if isinstance(v, dict) and '$tuple' in v:
        return tuple(build_value(x) for x in v['$tuple'])
    if isinstance(v, dict) and '$none' in v:
        return None
    return v


def run(path):
    doc = json.load(open(path))
    c = doc.get('concrete')
    if not c:
        print('replay: no concrete input in this file; obligation %s; solver said: %s' % (doc['key'], doc['solver_output']))
        return 2
    ns = native_namespace(doc['repo_root'])
    target = c['target']
    mod, _, rest = target.partition(':')
    m = importlib.import_module(mod)
    parts = rest.split('.')
    args = {k: build_value(v) for k, v in c.get('args', {}).items()}
    ghost = {k: build_value(v) for k, v in c.get('ghost', {}).items()}
    if len(parts) == 2:
        cls = getattr(m, parts[0])
        obj = cls()
        for k, v in c.get('self_fields', {}).items():
            setattr(obj, k, build_value(v))
        fn = getattr(obj, parts[1])
        call_ns = dict(args)
        call_ns['self'] = obj
    else:
        obj = None
        fn = getattr(m, parts[0])
        call_ns = dict(args)
    env = dict(ns)
    env.update(ghost)
    env.update(call_ns)
    # ghost definitions
    for (n, src) in c.get('lets', []):
        env[n] = native_eval(src, env, env)
    pre_env = dict(env)
    pre_env.update(copy.deepcopy({k: v for k, v in call_ns.items()}))
    for (n, src) in c.get('lets', []):
        pre_env[n] = native_eval(src, pre_env, pre_env)
    # preconditions must hold, else the counter-model is outside the contract
    for src in c.get('requires', []):
        try:
            ok = native_eval(src, env, pre_env)
        except Exception as e:
            print('replay: precondition not evaluable natively (%s): %r' % (src, e))
            return 2
        if not ok:
            print('replay: the concretised input does not satisfy requires(%s): spurious counter-model' % src)
            return 0
    whens = []
    for (ecls, src) in c.get('raises', []):
        whens.append((ecls, True if src is None else bool(native_eval(src, env, pre_env))))
    raised = None
    result = None
    try:
        result = fn(**args)
    except Exception as e:
        raised = e
    env['result'] = norm(result)
    import builtins
    bad = []
    if raised is not None:
        allowed = [w for (ecls, w) in whens if isinstance(raised, getattr(builtins, ecls, ()) or resolve_exc(ecls))]
        if not allowed:
            bad.append('raised %r but the contract allows no such exception' % (raised,))
        elif not any(allowed):
            bad.append('raised %r although no raises-condition holds' % (raised,))
        for src in c.get('ensures_raise', []):
            if not native_eval(src, env, pre_env):
                bad.append('after raising, ensures_raise(%s) is false' % src)
    else:
        for (ecls, w) in whens:
            if w and (ecls, w) in whens and c.get('raises_iff', True):
                src = [s for (e2, s) in c['raises'] if e2 == ecls]
                bad.append('returned normally although a raises(%s) condition holds' % ecls)
                break
        for src in c.get('ensures', []):
            try:
                if not native_eval(src, env, pre_env):
                    bad.append('ensures(%s) is false; result=%r' % (src, env['result'] if not isinstance(env['result'], bytes) else env['result'][:40]))
            except Exception as e:
                # the NATIVE evaluator could not evaluate the clause: a limit of the harness, never a verdict
                print('replay harness: ensures(%s) could not be evaluated natively: %r' % (src[:120], e))
                return 2
    if bad:
        print('REPRODUCED on the real code (%s): %s' % (target, ' | '.join(bad)[:600]))
        return 1
    print('not reproduced: the real code satisfies every clause on this input')
    return 0


# ------------------------------------------------------------------ boundary battery (counterexample search)
INTS = [-1, 0, 1, 2, 3, 23, 24, 127, 128, 255, 256, 16383, 16384, 65535, 65536, 2097151, 2097152, 268435455, 268435456]
SLENS = [0, 1, 2, 23, 24, 127, 128, 255, 256, 300, 16383, 16384, 65535, 65536]
CHARS = ['a', '\u00e9', '\u20ac', '\U0001F600']


def cand_str(rng):
    n = rng.choice(SLENS)
    ch = rng.choice(CHARS)
    k = len(ch.encode('utf-8'))
    s = ch * (n // k) + 'a' * (n % k)
    if rng.random() < 0.03:
        s = '\ud800'
    return {'$str_utf8': list(s.encode('utf-8', 'surrogatepass'))} if s != '\ud800' else {'$str_utf8': [237, 160, 128]}


def cand_bytes(rng):
    n = rng.choice([0, 1, 2, 3, 4, 5, 127, 128, 300])
    return {'$bytes': [rng.choice([0, 1, 2, 127, 128, 129, 255, rng.randrange(256)]) for _ in range(n)]}


def cand_type(t, rng):
    if t == 'int':
        return rng.choice(INTS)
    if t == 'bool':
        return rng.random() < 0.5
    if t == 'Str':
        return cand_str(rng)
    if t == 'Bytes':
        return cand_bytes(rng)
    if t == 'Ver':
        return {'$ver': rng.choice(['v31', 'v311'])}
    if t == 'ListSI':
        return {'$list': [{'$tuple': [cand_str(rng), rng.choice([0, 1, 2])]} for _ in range(rng.choice([0, 1, 2, 3]))]}
    if t == 'ListStr':
        return {'$list': [cand_str(rng) for _ in range(rng.choice([0, 1, 2, 3]))]}
    if t == 'ListIB':
        return {'$list': [{'$tuple': [rng.choice([0, 1, 2, 127]), rng.random() < 0.5]} for _ in range(rng.choice([0, 1, 2, 3]))]}
    return None


def cand_field(cls, f, rng):
    none = {'$none': 1}
    if f in ('msgId', 'keepalive'):
        return rng.choice(INTS)
    if f in ('qos', 'willQoS'):
        return rng.choice([0, 1, 2])
    if f in ('dup', 'retain', 'cleanStart', 'willRetain', 'session'):
        return rng.random() < 0.5
    if f in ('topic', 'clientId'):
        return cand_str(rng)
    if f == 'payload':
        return rng.choice([cand_str(rng), cand_bytes(rng), cand_str(rng), 5, none])
    if f in ('willTopic', 'willMessage', 'username', 'password'):
        return rng.choice([none, cand_str(rng), cand_str(rng)])
    if f == 'topics':
        return cand_type('ListSI' if cls == 'SUBSCRIBE' else 'ListStr', rng)
    if f == 'granted':
        return cand_type('ListIB', rng)
    if f == 'resultCode':
        return rng.choice([0, 1, 5, 6, 255, 256])
    if f == 'version':
        return {'$ver': rng.choice(['v31', 'v311'])}
    return none


def battery(path):
    import random, re
    doc = json.load(open(path))
    b = doc['battery']
    rng = random.Random(int(os.environ.get('VERIF_SEED', '0') or 0))
    clauses = ' '.join(b['requires'] + b['ensures'] + b['ensures_raise'] + [w for (_, w) in b['raises'] if w] + [e for (_, e) in b['lets']])
    fields = sorted(set(re.findall(r'self\.(\w+)', clauses)))
    cls = b['target'].split(':')[1].split('.')[0] if '.' in b['target'].split(':')[1] else None
    ns = native_namespace(doc['repo_root'])
    tried = 0
    for it in range(int(b.get('samples', 400))):
        conc = {'target': b['target'], 'args': {}, 'ghost': {}, 'self_fields': {}, 'lets': b['lets'], 'requires': b['requires'],
                'raises': b['raises'], 'ensures': b['ensures'], 'ensures_raise': b['ensures_raise']}
        ok = True
        for (n, t, real) in b['params']:
            if n == 'self':
                for f in fields:
                    conc['self_fields'][f] = cand_field(cls, f, rng)
                continue
            v = cand_type(t, rng)
            if v is None and t != 'bool':
                ok = False
                break
            (conc['args'] if real else conc['ghost'])[n] = v
        if not ok:
            print('battery: parameter type not supported')
            return 2
        # a requires of the form `packet == <spec expression>` determines that argument from the ghosts
        for src in b['requires']:
            m = re.match(r'^(\w+) == (.+)$', src)
            if m and m.group(1) in conc['args']:
                try:
                    env = dict(ns)
                    env.update({k: build_value(v) for k, v in conc['ghost'].items()})
                    val = eval(m.group(2), env)
                    if isinstance(val, (bytes, bytearray)) and len(val) < 400000:
                        conc['args'][m.group(1)] = {'$bytes': list(val)}
                except Exception:
                    pass
        doc['concrete'] = conc
        tmp = path + '.try'
        json.dump(doc, open(tmp, 'w'))
        import io, contextlib
        buf = io.StringIO()
        try:
            with contextlib.redirect_stdout(buf):
                rc = run(tmp)
        except Exception as e:
            rc = 2
        if rc == 1:
            os.replace(tmp, path)
            print('battery: failing input found after %d samples' % (it + 1))
            print(buf.getvalue().strip()[-400:])
            return 1
        if rc == 0 and 'spurious' not in buf.getvalue():
            tried += 1
    try:
        os.unlink(path + '.try')
    except OSError:
        pass
    doc['concrete'] = None
    doc['battery_result'] = 'no failing input among %d valid samples' % tried
    json.dump(doc, open(path, 'w'), indent=1)
    print('battery: no failing input among %d valid samples' % tried)
    return 0


def resolve_exc(name):
    try:
        import mqtt.error as E
        if hasattr(E, name):
            return getattr(E, name)
    except Exception:
        pass
    return ()


if __name__ == '__main__':
    try:
        rc = battery(sys.argv[1]) if '--battery' in sys.argv else run(sys.argv[1])
    except Exception:
        import traceback
        traceback.print_exc()
        print('replay harness error (not a verdict)')
        rc = 2
    sys.exit(rc)
