"""Engine mixin: calls (repo functions by contract or inlined, library models, spec functions, spec built-ins)."""
import ast, z3
from .values import *
from .state import *
from .engine import Res, FnCtx, as_int, as_num, is_num, const_int, simp
from .engine_stmt import NEXT, RET, RAISE, BRK, CONT
from . import front

MUTATORS = {'append', 'extend'}
KIND_TESTS = {'is_list_bytes': 'list_bytes', 'is_int': 'int', 'is_bool': 'bool', 'is_str': 'str', 'is_bytes': 'bytes', 'is_ref': 'ref',
              'is_none': 'none', 'is_unset': 'unset', 'is_real': 'real', 'is_ver': 'ver', 'is_obj': 'obj',
              'is_list_si': 'list_si', 'is_list_str': 'list_str', 'is_pair_si': 'pair_si', 'is_func': 'func',
              'is_list_ib': 'list_ib', 'is_exc': 'exc', 'is_list_ref': 'list_ref'}
KIND_CASTS = {'as_list_bytes': 'list_bytes', 'as_int': 'int', 'as_bool': 'bool', 'as_str': 'str', 'as_bytes': 'bytes', 'as_ref': 'ref',
              'as_real': 'real', 'as_list_si': 'list_si', 'as_list_str': 'list_str', 'as_pair_si': 'pair_si',
              'as_list_ib': 'list_ib', 'as_ver': 'ver', 'as_list_ref': 'list_ref', 'as_obj': 'obj'}


class CallMixin:

    # ------------------------------------------------------------------ call expression
    def ev_Call(self, node, p, fc):
        f = node.func
        if isinstance(f, ast.Name):
            sp = self.spec_call(node, f.id, p, fc)
            if sp is not None:
                return sp
            if f.id == 'getattr':
                return self.call_getattr(node, p, fc)
        # value-semantics mutators: receiver is written back
        if isinstance(f, ast.Attribute) and f.attr in MUTATORS:
            return self.call_mutator(node, p, fc)

        def after_func(q, fv):
            pos = list(node.args)
            kwn = [k.arg for k in node.keywords]
            kwe = [k.value for k in node.keywords]
            if any(k is None for k in kwn) or any(isinstance(a, ast.Starred) for a in pos):
                raise Unsupported('*args/**kwargs call')

            def after_args(q2, vs):
                args = vs[:len(pos)]
                kwargs = dict(zip(kwn, vs[len(pos):]))
                return self.call_value(fv, args, kwargs, q2, fc, node)
            return self.bind(self.ev_many(pos + kwe, q, fc), after_args)
        return self.bind(self.ev(f, p, fc), after_func)

    def call_getattr(self, node, p, fc):
        def f(q, vs):
            obj, name = vs[0], vs[1]
            if not (isinstance(name, VStr) and name.const is not None):
                raise Unsupported('getattr with a non-constant name')
            if not isinstance(obj, VRef):
                raise Unsupported('getattr on %r' % (obj,))
            out = []
            for (q2, cls) in self.classof(q, obj):
                ci, fn = self.repo.find_method(cls, name.const)
                if fn is not None:
                    out.append(Res(q2, VFunc('method', ci.qname + '.' + name.const, self_v=VRef(obj.t, cls), node=fn,
                                             module=ci.module, cls=ci)))
                elif self.instance_assigned(name.const):
                    raise Unsupported('getattr of an instance field')
                elif len(vs) > 2:
                    out.append(Res(q2, vs[2]))
                else:
                    out.append(self.raise_(q2, 'AttributeError', self.src(node)))
            return out
        return self.bind(self.ev_many(node.args, p, fc), f)

    def call_mutator(self, node, p, fc):
        f = node.func

        def go(q, vs):
            out = []
            for (q1, recv) in self.cases(q, vs[0]):
                for (q2, arg) in self.cases(q1, vs[1]):
                    out.extend(self.mutate(q2, f, recv, arg, fc, node))
            return out
        return self.bind(self.ev_many([f.value] + list(node.args), p, fc), go)

    def mutate(self, p, f, recv, arg, fc, node):
        if isinstance(recv, VBytes):
            if f.attr == 'extend':
                if isinstance(arg, VBytes):
                    nv = VBytes(z3.Concat(recv.t, arg.t), True)
                elif isinstance(arg, VNone) or is_num(arg) or isinstance(arg, VRef):
                    return [self.raise_(p, 'TypeError', self.src(node))]
                else:
                    raise Unsupported('bytearray.extend(%r)' % (arg,))
                return self._assign_ok(f.value, nv, p, fc)
            if f.attr == 'append':
                if not is_num(arg):
                    return [self.raise_(p, 'TypeError', self.src(node))]
                x = as_int(arg)
                rs = []
                bad = z3.Or(x < 0, x > 255)
                if feasible(p, bad):
                    q = p.fork()
                    q.assume(bad)
                    q.trace.append('byte out of range: %s' % self.src(node))
                    rs.append(self.raise_(q, 'ValueError', 'byte must be in range(0, 256): ' + self.src(node)))
                p.assume(z3.Not(bad))
                rs.extend(self._assign_ok(f.value, VBytes(z3.Concat(recv.t, z3.Unit(x)), True), p, fc))
                return rs
        if isinstance(recv, VList) and f.attr == 'append':
            k, t = storable(arg)
            if k != recv.ek:
                if self._is_empty(recv.t):
                    return self._assign_ok(f.value, VList(z3.Unit(t), k), p, fc)
                raise Unsupported('append of %s to list of %s' % (k, recv.ek))
            return self._assign_ok(f.value, VList(z3.Concat(recv.t, z3.Unit(t)), k), p, fc)
        if isinstance(recv, VRef):
            # deque.append etc.: ordinary library method call
            out = []
            for (q, cls) in self.classof(p, recv):
                out.extend(self.lib.call_builtin(self, cls + '.' + f.attr, q, fc, node, VRef(recv.t, cls), [arg], {}))
            return out
        if isinstance(recv, VNone) or recv is None:
            return [self.raise_(p, 'AttributeError', self.src(node))]
        raise Unsupported('%s on %r' % (f.attr, recv))

    def _assign_ok(self, target, v, p, fc):
        out = []
        for r in self.assign(target, v, p, fc):
            out.append(r if r.exc is not None else Res(r.p, VNone()))
        return out

    # ------------------------------------------------------------------ dispatch on the callee value
    def call_value(self, fv, args, kwargs, p, fc, node):
        if isinstance(fv, VUnion):
            out = []
            for (q, c) in self.cases(p, fv):
                out.extend(self.call_value(c, args, kwargs, q, fc, node))
            return out
        if fv is None or isinstance(fv, VNone):
            return [self.raise_(p, 'TypeError', "'NoneType' object is not callable: " + self.src(node))]
        if isinstance(fv, VFunc):
            if fv.fk == 'builtin':
                return self.lib.call_builtin(self, fv.name, p, fc, node, fv.self_v, args, kwargs)
            if fv.fk == 'cb':
                return self.lib.h_user_callback(self, fv, p, fc, node, args)
            if fv.fk in ('method', 'function', 'unbound'):
                if fv.fk == 'method':
                    args = [fv.self_v] + list(args)
                return self.call_repo(fv, args, kwargs, p, fc, node)
            if fv.fk == 'closure':
                raise Unsupported('direct call of a closure')
        if isinstance(fv, VRef):
            out = []
            for (q, cls) in self.classof(p, fv):
                ci, fn = self.repo.find_method(cls, '__call__') if cls in self.repo.classes else (None, None)
                if fn is None:
                    out.append(self.raise_(q, 'TypeError', 'object is not callable: ' + self.src(node)))
                    continue
                f = VFunc('method', ci.qname + '.__call__', self_v=VRef(fv.t, cls), node=fn, module=ci.module, cls=ci)
                out.extend(self.call_repo(f, [f.self_v] + list(args), kwargs, q, fc, node))
            return out
        if isinstance(fv, VClass):
            if fv.exc or self.is_exc_class(fv.name):
                return [Res(p, VExc(fv.name.split('.')[-1], args, self.src(node)))]
            if fv.repo_cls is not None:
                return self.instantiate(fv, args, kwargs, p, fc, node)
        raise Unsupported('call of %r: %s' % (fv, self.src(node)))

    def instantiate(self, cv, args, kwargs, p, fc, node):
        obj = alloc(p, cv.name)
        ci, init = self.repo.find_method(cv.name, '__init__')
        if init is None:
            return [Res(p, obj)]
        f = VFunc('method', ci.qname + '.__init__', self_v=obj, node=init, module=ci.module, cls=ci)
        out = []
        for r in self.call_repo(f, [obj] + list(args), kwargs, p, fc, node):
            out.append(r if r.exc is not None else Res(r.p, obj))
        return out

    def bind_params(self, fnode, args, kwargs, p, module):
        """python argument binding (positional, keyword, defaults)"""
        names = [a.arg for a in fnode.args.args]
        env = {}
        if len(args) > len(names):
            return None
        for n, v in zip(names, args):
            env[n] = v
        for k, v in kwargs.items():
            if k in env or k not in names:
                return None
            env[k] = v
        defaults = fnode.args.defaults
        dn = names[len(names) - len(defaults):]
        for n, d in zip(dn, defaults):
            if n not in env:
                env[n] = self.const_expr(d, module, p)
        if any(n not in env for n in names):
            return None
        return env

    def call_repo(self, fv, args, kwargs, p, fc, node):
        qname = fv.name
        contract = self.specs.callsite_contract(qname) if self.specs else None
        env = self.bind_params(fv.node, args, kwargs, p, fv.module)
        if env is None:
            return [self.raise_(p, 'TypeError', 'bad arguments: ' + self.src(node))]
        if contract is not None and not (self.unit_target == qname and self.depth == 0 and False):
            for n_, v_ in env.items():
                self.policy_escape(p, v_, 'passed to ' + qname.split('.')[-1])
            return self.apply_contract(contract, env, p, fc, node, fv)
        return self.inline(fv, env, p, fc, node)

    def inline(self, fv, env, p, fc, node):
        if self.depth > 12:
            raise Unsupported('inlining too deep at ' + fv.name)
        self.inlined.add(fv.name)
        nfc = FnCtx(fv.module, fv.name, node=fv.node, cls=fv.cls, locals_=front.local_names(fv.node))
        nfc.old = fc.old
        saved_env = p.env
        p.env = env
        self.depth += 1
        try:
            outs = self.ex_block(fv.node.body, p, nfc)
        finally:
            self.depth -= 1
        res = []
        for (k, q, v) in outs:
            q.env = dict(saved_env)
            if k == RAISE:
                res.append(Res(q, exc=v))
            elif k == RET:
                res.append(Res(q, v))
            elif k == NEXT:
                res.append(Res(q, VNone()))
            else:
                raise Unsupported('break/continue outside loop')
        return res

    # ------------------------------------------------------------------ contracts at call sites
    def contract_fc(self, contract, old):
        sfc = FnCtx(self.specs.module_ctx, contract.target + '#spec', spec=True)
        sfc.old = old
        return sfc

    def apply_contract(self, c, env, p, fc, node, fv):
        self.used_contracts.add(c.key)
        where = '%s/call:%s' % (fc.qname, self.src(node)[:50])
        ghost = [n for (n, t) in c.params if n not in env]
        if ghost:
            raise Unsupported('call-site contract of %s has ghost parameters' % c.target)
        # resolve unions of typed params
        ptypes = dict(c.params)
        outs = [(p, dict(env))]
        for n in list(env):
            if isinstance(env[n], VUnion) and ptypes.get(n, 'Any') != 'Any':
                nxt = []
                for (q, e) in outs:
                    for (q2, cv) in self.cases(q, env[n]):
                        e2 = dict(e)
                        e2[n] = cv
                        nxt.append((q2, e2))
                outs = nxt
        res = []
        for (q, e) in outs:
            res.extend(self.apply_contract1(c, e, q, fc, node, where))
        return res

    def apply_contract1(self, c, env, p, fc, node, where):
        saved_env = p.env
        old = (dict(env), dict(p.heap), p.epoch)
        sfc = self.contract_fc(c, old)
        p.env = dict(env)
        out = []
        try:
            self.eval_lets(c, p, sfc)
            env = dict(p.env)
            old = (dict(env), old[1], old[2])      # ghost definitions are visible inside old(...)
            sfc.old = old
            # argument types
            for (n, t) in c.params:
                if n not in env:
                    continue
                ok = self.type_check(p, env[n], t)
                if ok is not True:
                    self.oblige(p, where + '/argtype:' + n, ok, 'precondition')
            for i, r in enumerate(c.requires):
                self.oblige(p, '%s/requires%d:%s' % (where, i, self.src(r)[:60]), self.spec_bool(r, p, sfc), 'precondition')
            # exceptional exits
            conds = []
            for (ecls, when) in c.raises:
                wt = self.spec_bool(when, p, sfc) if when is not None else None
                conds.append((ecls, wt))
            normal = p
            none_of = []
            for (ecls, wt) in conds:
                cond = wt if wt is not None else z3.BoolVal(True)
                if wt is not None:
                    none_of.append(z3.Not(wt))
                if not z3.is_false(simp(z3.And(cond, *none_of[:-1] if wt is not None else none_of))):
                    q = p.fork()
                    q.assume(cond)
                    q.trace.append('%s raises %s' % (c.target.split('.')[-1], ecls))
                    self.havoc_modifies(c, q, sfc, exceptional=True)
                    for e in c.ensures_raise:
                        q.env = dict(env)
                        q.assume(self.spec_bool(e, q, sfc))
                    q.env = dict(saved_env)
                    out.append(Res(q, exc=VExc(ecls, [], 'raised by ' + c.target)))
            for n_ in none_of:
                normal.assume(n_)
            self.havoc_modifies(c, normal, sfc, exceptional=False)
            result = self.fresh_of_type(normal, 'res_' + c.target.split('.')[-1], c.ret) if c.ret not in (None, 'None') else VNone()
            sfc.result = result
            normal.env = dict(env)
            for e in c.ensures:
                normal.assume(self.spec_bool(e, normal, sfc))
            normal.env = dict(saved_env)
            out.append(Res(normal, result))
            return out
        finally:
            if p.env is not saved_env and p is not None:
                p.env = dict(saved_env)

    def all_but_names(self, m):
        names = []
        for a in m.args:
            if isinstance(a, ast.Name):
                names.extend(self.specs.consts[a.id][1])
            else:
                names.append(ast.literal_eval(a))
        return names

    def eval_lets(self, c, p, sfc):
        for (n, e) in c.lets:
            rs = self.ev(e, p, sfc)
            if len(rs) != 1 or rs[0].exc is not None:
                raise Unsupported('ghost definition forks: ' + n)
            p.env[n] = rs[0].v

    def havoc_modifies(self, c, p, sfc, exceptional):
        if c.modifies is None:
            raise Unsupported('contract of %s used at a call site needs a modifies clause' % c.target)
        for m in c.modifies:
            self.havoc_loc(m, p, sfc)

    def havoc_loc(self, m, p, sfc):
        if isinstance(m, ast.Attribute):
            r = self.ev(m.value, p, sfc)[0].v
            if isinstance(r, VUnion):
                # the location exists only if the base really is an object (e.g. request.interval may be None)
                arr = farr(p, m.attr)
                p.heap['f:' + m.attr] = z3.If(r.is_('ref'), z3.Store(arr, r.get('ref'), fresh('hv_' + m.attr, Val)), arr)
                return
            store_value(p, m.attr, r.t, VUnion(fresh('hv_' + m.attr, Val)))
        elif isinstance(m, ast.Call) and isinstance(m.func, ast.Name) and m.func.id == 'fields':
            for a in m.args:
                f = ast.literal_eval(a)
                p.heap['f:' + f] = fresh('hv_' + f, A1(Val))
        elif isinstance(m, ast.Call) and isinstance(m.func, ast.Name) and m.func.id == 'dicts':
            for nm in ('$dom', '$val', '$card', '$ord', '$clock', '$dq', '$dqh', '$dqt'):
                harr(p, nm)
                p.heap[nm] = fresh('hv_' + nm[1:], SPECIAL[nm])
        elif isinstance(m, ast.Call) and isinstance(m.func, ast.Name) and m.func.id == 'allocates':
            n = fresh('next', I)
            p.assume(n >= next_ref(p))
            p.heap['$next'] = n
        elif isinstance(m, ast.Call) and isinstance(m.func, ast.Name) and m.func.id == 'callbacks':
            p.heap['$cblog'] = fresh('hv_cblog', z3.SeqSort(CbCall))
        elif isinstance(m, ast.Call) and isinstance(m.func, ast.Name) and m.func.id == 'all_but':
            keep = set((x if x.startswith('$') else 'f:' + x) for x in self.all_but_names(m))
            keep.add('$cls')
            # kept arrays keep their pre-call value: materialise them before the epoch changes
            for nm in keep:
                if nm.startswith('f:'):
                    harr(p, nm, A1(Val))
                elif nm in SPECIAL:
                    harr(p, nm)
            # arrays first touched after this point denote the post-call heap, not the entry heap
            p.epoch = Path.fresh_name('e').split('!')[1]
            for nm in list(p.heap):
                if nm in keep:
                    continue
                if nm == '$next':
                    n = fresh('next', I)
                    p.assume(n >= p.heap['$next'])
                    p.heap['$next'] = n
                elif nm == '$cblog':
                    pass      # user callbacks are only havocked by an explicit callbacks() clause
                else:
                    p.heap[nm] = fresh('hv_' + nm.replace(':', '_').replace('$', ''), p.heap[nm].sort())
        else:
            raise Unsupported('modifies clause ' + self.src(m))

    # ------------------------------------------------------------------ types
    def fresh_of_type(self, p, name, t):
        if t in (None, 'Any'):
            return VUnion(fresh(name, Val), name)
        if t == 'int':
            return VInt(fresh(name, I))
        if t == 'bool':
            return VBool(fresh(name, B))
        if t == 'real':
            return VReal(fresh(name, Rl))
        if t == 'Bytes':
            return VBytes(fresh(name, BytesS), True)
        if t == 'Str':
            return VStr(fresh(name, StrS))
        if t == 'Ver':
            return VVer(fresh(name, I))
        if t == 'Obj':
            return VObj(fresh(name, I))
        if t == 'None':
            return VNone()
        if t in ('ListSI', 'ListStr', 'ListIB', 'ListInt', 'ListRef', 'ListBytes'):
            ek = {'ListSI': 'pair_si', 'ListStr': 'str', 'ListIB': 'pair_ib', 'ListInt': 'int', 'ListRef': 'ref',
                  'ListBytes': 'bytes'}[t]
            return VList(fresh(name, z3.SeqSort(KSORT[ek])), ek)
        if isinstance(t, tuple) and t[0] == 'Ref':
            if t[1] == 'obj':
                r = VRef(fresh(name, I), None)
                self.wf_value(p, r)
                return r
            r = VRef(fresh(name, I), t[1])
            self.wf_value(p, r)
            p.assume(z3.Select(harr(p, '$cls'), r.t) == cls_code(t[1]))
            return r
        if isinstance(t, tuple) and t[0] == 'Tuple':
            return VTuple([self.fresh_of_type(p, '%s_%d' % (name, i), x) for i, x in enumerate(t[1])])
        if isinstance(t, tuple) and t[0] == 'Opt':
            inner = self.fresh_of_type(p, name, t[1])
            isn = fresh(name + '_isnone', B)
            return VUnion(z3.If(isn, Val.v_none, to_val(inner)), name)
        raise Unsupported('type %r' % (t,))

    def type_check(self, p, v, t):
        """True, or a Bool term that must hold for v to be of type t"""
        if t in (None, 'Any'):
            return True
        kindmap = {'int': (VInt, VBool), 'bool': (VBool,), 'real': (VReal, VInt), 'Bytes': (VBytes,), 'Str': (VStr,),
                   'Ver': (VVer,), 'Obj': (VObj,), 'None': (VNone,)}
        if isinstance(t, str) and t in kindmap:
            return True if isinstance(v, kindmap[t]) else z3.BoolVal(False)
        if isinstance(t, str) and t.startswith('List'):
            return True if isinstance(v, VList) else z3.BoolVal(False)
        if isinstance(t, tuple) and t[0] == 'Ref':
            if not isinstance(v, VRef):
                return z3.BoolVal(False)
            if v.cls is not None:
                ok = v.cls == t[1] or (v.cls in self.repo.classes and self.repo.is_subclass(v.cls, t[1]))
                return True if ok else z3.BoolVal(False)
            return z3.Select(harr(p, '$cls'), v.t) == cls_code(t[1])
        if isinstance(t, tuple) and t[0] == 'Tuple':
            return True if isinstance(v, VTuple) and len(v.items) == len(t[1]) else z3.BoolVal(False)
        if isinstance(t, tuple) and t[0] == 'Opt':
            if isinstance(v, VNone):
                return True
            return self.type_check(p, v, t[1])
        raise Unsupported('type check %r' % (t,))

    # ------------------------------------------------------------------ spec functions and spec built-ins
    def spec_call(self, node, name, p, fc):
        S = self.specs
        if S is None:
            return None
        if name in S.funcs or name in S.invdefs:
            f = S.funcs.get(name) or S.invdefs.get(name)

            def go(q, vs):
                return [Res(q, self.apply_spec_fn(f, vs, q, fc, node))]
            return self.bind(self.ev_many(node.args, p, fc), go)
        if name in S.lemmas and getattr(fc, 'in_ghost', False):
            return None
        if not (fc.spec or getattr(fc, 'ghost_ok', False)):
            return None
        h = getattr(self, 'sp_' + name, None)
        if h is not None:
            return h(node, p, fc)
        if name in KIND_TESTS:
            v = self.ev(node.args[0], p, fc)[0].v
            k = KIND_TESTS[name]
            if isinstance(v, VUnion):
                return [Res(p, VBool(v.is_(k)))]
            if v is None:
                return [Res(p, VBool(k == 'unset'))]
            return [Res(p, VBool(v.kind == k or (k == 'int' and False)))]
        if name in KIND_CASTS:
            v = self.ev(node.args[0], p, fc)[0].v
            k = KIND_CASTS[name]
            if isinstance(v, VUnion):
                return [Res(p, mk_value(k, simp(v.get(k))))]
            return [Res(p, v)]
        return None

    def spec_sort(self, t):
        m = {'int': I, 'bool': B, 'real': Rl, 'Bytes': BytesS, 'Str': StrS, 'Ver': I, 'Obj': I,
             'ListSI': KSORT['list_si'], 'ListStr': KSORT['list_str'], 'ListIB': KSORT['list_ib'],
             'ListInt': KSORT['list_int'], 'ListRef': KSORT['list_ref'], 'ListBytes': KSORT['list_bytes'], 'Any': Val}
        if isinstance(t, tuple) and t[0] == 'Ref':
            return I
        return m[t]

    def value_of_type(self, term, t):
        if t == 'int':
            return VInt(term)
        if t == 'bool':
            return VBool(term)
        if t == 'real':
            return VReal(term)
        if t == 'Bytes':
            return VBytes(term, False)
        if t == 'Str':
            return VStr(term)
        if t == 'Ver':
            return VVer(term)
        if t == 'Obj':
            return VObj(term)
        if t == 'Any':
            return VUnion(term)
        if isinstance(t, str) and t.startswith('List'):
            ek = {'ListSI': 'pair_si', 'ListStr': 'str', 'ListIB': 'pair_ib', 'ListInt': 'int', 'ListRef': 'ref',
                  'ListBytes': 'bytes'}[t]
            return VList(term, ek)
        if isinstance(t, tuple) and t[0] == 'Ref':
            return VRef(term, None if t[1] == 'obj' else t[1])
        raise Unsupported('value_of_type %r' % (t,))

    def coerce_to(self, v, t):
        """term of a value passed for a spec parameter of type t"""
        if t == 'int':
            return as_int(self.spec_coerce(v))
        if t == 'bool':
            if isinstance(v, VBool):
                return v.t
            if isinstance(v, VUnion):
                return v.get('bool')
            return as_int(v) != 0
        if t == 'real':
            if isinstance(v, VReal):
                return v.t
            return z3.ToReal(as_int(v))
        if t == 'Any':
            return to_val(v)
        if isinstance(v, VUnion):
            k = {'Bytes': 'bytes', 'Str': 'str', 'Ver': 'ver', 'Obj': 'obj', 'ListSI': 'list_si', 'ListStr': 'list_str',
                 'ListIB': 'list_ib', 'ListInt': 'list_int', 'ListRef': 'list_ref'}.get(t, 'ref')
            return v.get(k)
        if isinstance(v, VList) and isinstance(t, str) and t.startswith('List'):
            want = {'ListSI': 'pair_si', 'ListStr': 'str', 'ListIB': 'pair_ib', 'ListInt': 'int', 'ListRef': 'ref',
                    'ListBytes': 'bytes'}[t]
            if v.ek != want:
                if self._is_empty(v.t):
                    return z3.Empty(z3.SeqSort(KSORT[want]))
                raise Unsupported('list kind mismatch for spec parameter')
        return v.t

    def apply_spec_fn(self, f, vs, p, fc, node):
        if len(vs) != len(f.params):
            raise Unsupported('spec function %s arity' % f.name)
        in_quant = getattr(fc, 'in_quant', False)
        if not f.recursive:
            # memo: the value of a non-recursive spec function is determined by its argument terms, the heap arrays
            # it may read (identity of the z3 terms), the old() snapshot and the enclosing bound variables
            try:
                akey = tuple((type(v).__name__, v.t.get_id() if getattr(v, 't', None) is not None else id(v), getattr(v, 'cls', None)) for v in vs)
            except Exception:
                akey = None
            key = None
            if akey is not None:
                hkey = tuple(sorted((n, a.get_id() if hasattr(a, 'get_id') else id(a)) for n, a in p.heap.items()))
                okey = id(fc.old[1]) if fc.old is not None else 0
                bkey = tuple(sorted((n, b.t.get_id()) for n, b in getattr(fc, 'bound', {}).items()))
                key = (f.name, akey, hkey, okey, bkey, in_quant, p.epoch, getattr(fc, 'unfold_depth', 0))
                memo = getattr(self, '_spec_memo', None)
                if memo is None:
                    memo = self._spec_memo = {}
                hit = memo.get(key)
                if hit is not None:
                    val, facts, keep_alive = hit
                    for a in facts:
                        p.assume(a)
                    return val
            n0 = len(p.pc)
            val = self.eval_spec_body(f, vs, p, fc)
            if key is not None:
                # keep the argument / heap terms alive so that their ids cannot be recycled
                self._spec_memo[key] = (val, list(p.pc[n0:]), (list(vs), dict(p.heap)))
            return val
        terms = [self.coerce_to(v, t) for v, (n, t) in zip(vs, f.params)]
        uf = self.spec_uf(f)
        app = uf(*terms)
        res = self.value_of_type(app, f.ret)
        # definitional unfolding, once per syntactic application and path (depth 1)
        depth = getattr(fc, 'unfold_depth', 0)
        key = 'unf:%d' % app.get_id()
        if not in_quant and depth < 1 and key not in p.ghost:
            p.ghost = dict(p.ghost)
            p.ghost[key] = app          # keeps the term alive: its id cannot be recycled
            sfc = FnCtx(self.specs.module_ctx, 'spec:' + f.name, spec=True)
            sfc.unfold_depth = depth + 1
            sfc.old = fc.old
            body = self.eval_spec_body(f, [self.value_of_type(t, ty) for t, (n, ty) in zip(terms, f.params)], p, sfc)
            p.assume(self.veq(p, res, body))
        if f.ret == 'Bytes':
            pass
        return res

    def spec_uf(self, f):
        if not hasattr(self, '_ufs'):
            self._ufs = {}
        if f.name not in self._ufs:
            self._ufs[f.name] = z3.Function('sp_' + f.name, *([self.spec_sort(t) for (n, t) in f.params] + [self.spec_sort(f.ret)]))
        return self._ufs[f.name]

    def eval_spec_body(self, f, vs, p, fc):
        sfc = FnCtx(self.specs.module_ctx, 'spec:' + f.name, spec=True)
        sfc.old = fc.old
        sfc.unfold_depth = getattr(fc, 'unfold_depth', 0)
        sfc.in_quant = getattr(fc, 'in_quant', False)
        sfc.bound = getattr(fc, 'bound', {})
        sfc.spec_params = [n for (n, t) in f.params]
        saved = p.env
        p.env = {}
        for v, (n, t) in zip(vs, f.params):
            if t == 'Any':
                p.env[n] = v
            elif t == 'Bytes' and isinstance(v, VBytes):
                p.env[n] = v          # keeps the code/spec provenance (byte-range facts at read sites)
            elif isinstance(t, tuple) and t[0] == 'Ref' and isinstance(v, VRef) and v.cls is not None:
                p.env[n] = v          # keeps the (possibly more specific) static class of the reference
            else:
                p.env[n] = self.value_of_type(self.coerce_to(v, t), t)
        try:
            rs = self.ev(f.body, p, sfc)
        finally:
            p.env = saved
        if len(rs) != 1 or rs[0].exc is not None:
            raise Unsupported('spec function %s forks or raises' % f.name)
        return rs[0].v

    # ---- spec built-ins
    def sp_old(self, node, p, fc):
        if fc.old is None:
            raise Unsupported('old() outside a contract')
        env, heap, epoch = fc.old
        q = p.fork()
        q.env = dict(env)
        q.env.update(getattr(fc, 'bound', {}))     # quantifier-bound variables are state-independent
        for n in getattr(fc, 'spec_params', ()):   # so are the (value) parameters of the enclosing spec function
            if n in p.env:
                q.env[n] = p.env[n]
        q.heap = dict(heap)
        q.epoch = epoch
        n0 = len(q.pc)
        rs = self.ev(node.args[0], q, fc)
        for a in q.pc[n0:]:
            p.assume(a)
        return [Res(p, rs[0].v)]

    def sp_implies(self, node, p, fc):
        a = self.spec_bool(node.args[0], p, fc)
        b = self.spec_bool(node.args[1], p, fc)
        return [Res(p, VBool(z3.Implies(a, b)))]

    def sp_iff(self, node, p, fc):
        a = self.spec_bool(node.args[0], p, fc)
        b = self.spec_bool(node.args[1], p, fc)
        return [Res(p, VBool(a == b))]

    def sp_seq(self, node, p, fc):
        vs = [self.ev(a, p, fc)[0].v for a in node.args]
        return [Res(p, VBytes(self.lib.seq_of([as_int(self.spec_coerce(v)) for v in vs]), False))]

    def sp_b2i(self, node, p, fc):
        v = self.ev(node.args[0], p, fc)[0].v
        if isinstance(v, VUnion):
            return [Res(p, VInt(z3.If(z3.And(v.is_('bool'), v.get('bool')), 1, z3.If(v.is_('int'), v.get('int'), 0))))]
        return [Res(p, VInt(as_int(v)))]

    def _ref_arg(self, node, p, fc, i=0):
        v = self.ev(node.args[i], p, fc)[0].v
        if isinstance(v, VUnion):
            v = VRef(v.get('ref'))
        return v

    def sp_dq_head(self, node, p, fc):
        return [Res(p, VInt(z3.Select(harr(p, '$dqh'), self._ref_arg(node, p, fc).t)))]

    def sp_dq_tail(self, node, p, fc):
        return [Res(p, VInt(z3.Select(harr(p, '$dqt'), self._ref_arg(node, p, fc).t)))]

    def sp_dq_at(self, node, p, fc):
        d = self._ref_arg(node, p, fc)
        j = self.ev(node.args[1], p, fc)[0].v
        return [Res(p, VRef(z3.Select(harr(p, '$dq'), d.t, as_int(self.spec_coerce(j)))))]

    def sp_dq_len(self, node, p, fc):
        d = self._ref_arg(node, p, fc)
        return [Res(p, VInt(z3.Select(harr(p, '$dqt'), d.t) - z3.Select(harr(p, '$dqh'), d.t)))]

    def sp_is_fresh(self, node, p, fc):
        """is_fresh(x): x is an object allocated during this call (not alive in the pre-state)"""
        v = self._ref_arg(node, p, fc)
        if fc.old is None:
            raise Unsupported('is_fresh outside a contract')
        env, heap, epoch = fc.old
        n0 = heap.get('$next', z3.Int('H%s_$next' % epoch))
        return [Res(p, VBool(z3.And(v.t >= n0, v.t < next_ref(p))))]

    def sp_lsi(self, node, p, fc):
        """lsi(s, i): the one-element list [(s, i)]"""
        a = self.ev(node.args[0], p, fc)[0].v
        b = self.ev(node.args[1], p, fc)[0].v
        st = a.get('str') if isinstance(a, VUnion) else a.t
        it = b.get('int') if isinstance(b, VUnion) else as_int(b)
        return [Res(p, VList(z3.Unit(PairSI.mk_si(st, it)), 'pair_si'))]

    def sp_lstr(self, node, p, fc):
        a = self.ev(node.args[0], p, fc)[0].v
        st = a.get('str') if isinstance(a, VUnion) else a.t
        return [Res(p, VList(z3.Unit(st), 'str'))]

    def _cblog(self, p):
        return self.lib.cblog(p)

    def sp_cb_unchanged(self, node, p, fc):
        env, heap, epoch = fc.old
        old = heap.get('$cblog', z3.Const('H0_$cblog', z3.SeqSort(CbCall)))
        return [Res(p, VBool(self._cblog(p) == old))]

    def sp_cb_appended(self, node, p, fc):
        """cb_appended(f, a0, ..): exactly one user callback was made by this call: f(a0, ..)"""
        env, heap, epoch = fc.old
        old = heap.get('$cblog', z3.Const('H0_$cblog', z3.SeqSort(CbCall)))
        vs = [self.ev(a, p, fc)[0].v for a in node.args]
        vals = [to_val(v) for v in vs[1:]]
        n = len(vals)
        while len(vals) < 6:
            vals.append(Val.v_unset)
        rec = CbCall.mk_cb(to_val(vs[0]), n, *vals)
        return [Res(p, VBool(self._cblog(p) == z3.Concat(old, z3.Unit(rec))))]

    def sp_pos_of(self, node, p, fc):
        """pos_of(keys, k): position of key k in the enumeration being iterated"""
        ks = self.ev(node.args[0], p, fc)[0].v
        k = self.ev(node.args[1], p, fc)[0].v
        return [Res(p, VInt(ks.pos(as_int(self.spec_coerce(k)))))]

    def sp_last_alloc(self, node, p, fc):
        """the most recently allocated object"""
        return [Res(p, VRef(next_ref(p) - 1))]

    def sp_exc(self, node, p, fc):
        """exc('ClassName'): an exception instance of that class, as held in a Deferred / errback"""
        return [Res(p, VExcVal(z3.IntVal(exc_code(ast.literal_eval(node.args[0])))))]

    def sp_has_class(self, node, p, fc):
        """has_class(obj, 'qualified.Class'): static class test (the class of self is fixed per verification unit)"""
        v = self.ev(node.args[0], p, fc)[0].v
        q = ast.literal_eval(node.args[1])
        if not isinstance(v, VRef) or v.cls is None:
            raise Unsupported('has_class needs a reference of statically known class')
        return [Res(p, VBool(v.cls == q or (v.cls in self.repo.classes and self.repo.is_subclass(v.cls, q))))]

    def sp_key_of(self, node, p, fc):
        """key_of(x): the integer a dict uses as key for x (addresses and identifiers share the key space of a dict)"""
        v = self.ev(node.args[0], p, fc)[0].v
        return [Res(p, VInt(self.key_term(v, p)))]

    def sp_obj_at(self, node, p, fc):
        """obj_at(i): the object with reference number i (to quantify over all objects)"""
        v = self.ev(node.args[0], p, fc)[0].v
        return [Res(p, VRef(as_int(self.spec_coerce(v))))]

    def sp_fn(self, node, p, fc):
        """fn('qualified.name'): the code of a repo function as stored in timers (t_fn)"""
        return [Res(p, VInt(fn_code(ast.literal_eval(node.args[0]))))]

    def sp_wf_states(self, node, p, fc):
        """the three state objects of a protocol: classes as the REAL constructors of the protocol's class build
        them (derived by symbolic execution of __init__ on every run), back-pointers, and state in {IDLE,
        CONNECTING, CONNECTED}"""
        v = self.ev(node.args[0], p, fc)[0].v
        if not isinstance(v, VRef) or v.cls is None:
            raise Unsupported('wf_states needs a protocol reference of known class')
        table = self.state_table(v.cls)
        terms = []
        refs = {}
        for name in ('IDLE', 'CONNECTING', 'CONNECTED'):
            u = load_value(p, name, v.t)
            r = u.get('ref')
            refs[name] = r
            terms.append(u.is_('ref'))
            terms.append(z3.Select(harr(p, '$cls'), r) == cls_code(table[name]))
            terms.append(z3.And(r > 0, r < next_ref(p)))
            back = load_value(p, 'protocol', r)
            terms.append(z3.And(back.is_('ref'), back.get('ref') == v.t))
        terms.append(z3.Distinct(refs['IDLE'], refs['CONNECTING'], refs['CONNECTED']))
        st = load_value(p, 'state', v.t)
        terms.append(z3.And(st.is_('ref'), z3.Or(*[st.get('ref') == r for r in refs.values()])))
        return [Res(p, VBool(z3.And(*terms)))]

    def state_table(self, cls):
        if not hasattr(self, '_state_tables'):
            self._state_tables = {}
        if cls not in self._state_tables:
            from .verify import Engine as E2
            sub = E2(self.repo, self.specs)
            q = Path()
            fc = FnCtx(None, 'ctor:' + cls)
            fac = sub.fresh_of_type(q, 'factory', ('Ref', 'mqtt.client.factory.MQTTFactory'))
            addr = VObj(fresh('addr', I))
            cv = VClass(cls, repo_cls=self.repo.classes[cls])
            rs = sub.instantiate(cv, [fac, addr], {}, q, fc, ast.parse('P(f, a)', mode='eval').body)
            oks = [r for r in rs if r.exc is None]
            if len(oks) != 1 or len(rs) != 1:
                raise Unsupported('constructor of %s forks or raises' % cls)
            r = oks[0]
            tab = {}
            for name in ('IDLE', 'CONNECTING', 'CONNECTED', 'state'):
                u = load_value(r.p, name, r.v.t)
                cs = sub.cases(r.p, u)
                if len(cs) != 1 or not isinstance(cs[0][1], VRef):
                    raise Unsupported('constructor of %s: %s not a single object' % (cls, name))
                cc = sub.classof(cs[0][0], cs[0][1])
                tab[name] = cc[0][1]
                tab[name + '#ref'] = cs[0][1].t
            self._state_tables[cls] = tab
        return self._state_tables[cls]

    def sp_lb(self, node, p, fc):
        """lb(b1, b2, ...): list of byte strings"""
        vs = [self.ev(a, p, fc)[0].v for a in node.args]
        S = z3.SeqSort(BytesS)
        if not vs:
            return [Res(p, VList(z3.Empty(S), 'bytes'))]
        us = [z3.Unit(v.get('bytes') if isinstance(v, VUnion) else v.t) for v in vs]
        return [Res(p, VList(us[0] if len(us) == 1 else z3.Concat(*us), 'bytes'))]

    def sp_num(self, node, p, fc):
        """numeric value (as a real) of an int-or-real valued expression"""
        v = self.ev(node.args[0], p, fc)[0].v
        if isinstance(v, VUnion):
            return [Res(p, VReal(z3.If(v.is_('int'), z3.ToReal(v.get('int')), v.get('real'))))]
        if isinstance(v, VReal):
            return [Res(p, v)]
        return [Res(p, VReal(z3.ToReal(as_int(v))))]

    def sp_is_num(self, node, p, fc):
        v = self.ev(node.args[0], p, fc)[0].v
        if isinstance(v, VUnion):
            return [Res(p, VBool(z3.Or(v.is_('int'), v.is_('real'))))]
        return [Res(p, VBool(isinstance(v, (VInt, VReal))))]

    def sp_len(self, node, p, fc):
        v = self.ev(node.args[0], p, fc)[0].v
        if isinstance(v, (VBytes, VList)):
            return [Res(p, VInt(z3.Length(v.t)))]
        if isinstance(v, VStr):
            return [Res(p, VInt(self.strings.strlen(p, v.t)))]
        if isinstance(v, VUnion):
            v = VRef(v.get('ref'))
        if isinstance(v, VRef):
            if v.cls == 'deque':
                return [Res(p, VInt(z3.Select(harr(p, '$dqt'), v.t) - z3.Select(harr(p, '$dqh'), v.t)))]
            c = z3.Select(harr(p, '$card'), v.t)
            return [Res(p, VInt(c))]
        if isinstance(v, VTuple):
            return [Res(p, VInt(len(v.items)))]
        if type(v).__name__ == 'VKeys':
            return [Res(p, VInt(v.n))]
        raise Unsupported('spec len of %r' % (v,))

    def sp_utf8(self, node, p, fc):
        v = self.ev(node.args[0], p, fc)[0].v
        if isinstance(v, VUnion):
            v = VStr(v.get('str'))
        return [Res(p, VBytes(self.strings.utf8_of(p, v.t), False))]

    def sp_utf8dec(self, node, p, fc):
        v = self.ev(node.args[0], p, fc)[0].v
        return [Res(p, VStr(self.strings.dec_of(p, v.t)))]

    def sp_valid_utf8(self, node, p, fc):
        v = self.ev(node.args[0], p, fc)[0].v
        return [Res(p, VBool(self.strings.valid(v.t)))]

    def sp_encodable(self, node, p, fc):
        v = self.ev(node.args[0], p, fc)[0].v
        if isinstance(v, VUnion):
            v = VStr(v.get('str'))
        return [Res(p, VBool(self.strings.enc(v.t)))]

    def sp_strlen(self, node, p, fc):
        v = self.ev(node.args[0], p, fc)[0].v
        if isinstance(v, VUnion):
            v = VStr(v.get('str'))
        return [Res(p, VInt(self.strings.strlen(p, v.t)))]

    def sp_ascii_ignore(self, node, p, fc):
        v = self.ev(node.args[0], p, fc)[0].v
        if isinstance(v, VUnion):
            v = VStr(v.get('str'))
        return [Res(p, VBytes(self.strings.ascii_ign(v.t), False))]

    def _quant(self, node, p, fc, forall):
        lam = node.args[0]
        if not isinstance(lam, ast.Lambda):
            raise Unsupported('forall needs a lambda')
        names = [a.arg for a in lam.args.args]
        outer = getattr(fc, 'bound', {})
        bound = [z3.Int('q_%s' % n if n not in outer else 'q_%s_%d' % (n, self._qid())) for n in names]
        saved = p.env
        p.env = dict(p.env)
        for n, b in zip(names, bound):
            p.env[n] = VInt(b)
        qfc = FnCtx(fc.module, fc.qname, spec=True)
        qfc.old = fc.old
        qfc.result = fc.result
        qfc.in_quant = True
        qfc.bound = dict(getattr(fc, 'bound', {}))
        qfc.spec_params = getattr(fc, 'spec_params', ())
        for n, b in zip(names, bound):
            qfc.bound[n] = VInt(b)
        n0 = len(p.pc)
        try:
            body = self.spec_bool(lam.body, p, qfc)
        finally:
            p.env = saved
        # facts generated while evaluating the body (byte ranges, dict facts) mention bound vars: drop them
        extra = p.pc[n0:]
        del p.pc[n0:]
        keep = []
        inner = []
        for a in extra:
            if not any(self._mentions(a, b) for b in bound):
                keep.append(a)
            else:
                inner.append(a)
        for a in keep:
            p.assume(a)
        # facts about the bound variables (byte ranges of code sequences, finite-map facts, codec axioms) are
        # universally valid library guarantees: they may be used inside the quantifier
        if forall:
            if inner:
                body = z3.Implies(z3.And(*inner), body)
            pats = self._patterns(body, bound)
            if pats:
                return [Res(p, VBool(z3.ForAll(bound, body, patterns=pats)))]
            return [Res(p, VBool(z3.ForAll(bound, body)))]
        if inner:
            body = z3.And(body, *inner)
        return [Res(p, VBool(z3.Exists(bound, body)))]

    def _patterns(self, body, bound):
        """triggers: selects on the container arrays ($dom / $val / $dq) whose last index is the bound variable"""
        if len(bound) != 1:
            return None
        b = bound[0]
        found = {}
        seen = set()
        stack = [body]
        while stack:
            t = stack.pop()
            if t.get_id() in seen:
                continue
            seen.add(t.get_id())
            if z3.is_app(t):
                if t.decl().kind() == z3.Z3_OP_SELECT and t.num_args() == 3 and t.arg(2).eq(b) and not self._mentions(t.arg(1), b) \
                        and not self._mentions(t.arg(0), b):
                    found[t.sexpr()] = t
                if t.decl().kind() == z3.Z3_OP_SELECT and t.num_args() == 2 and t.arg(1).eq(b) and not self._mentions(t.arg(0), b):
                    found[t.sexpr()] = t
                stack.extend(t.children())
            elif z3.is_quantifier(t):
                return None
        if not found:
            return None
        ok = [t for t in found.values() if 'ite' not in t.sexpr()]
        if not ok:
            return None
        return ok[:4]

    def _qid(self):
        self._qn = getattr(self, '_qn', 0) + 1
        return self._qn

    def _mentions(self, a, b):
        seen = set()
        stack = [a]
        while stack:
            t = stack.pop()
            if t.get_id() in seen:
                continue
            seen.add(t.get_id())
            if t.eq(b):
                return True
            if z3.is_app(t):
                stack.extend(t.children())
            elif z3.is_quantifier(t):
                stack.append(t.body())
        return False

    def sp_forall(self, node, p, fc):
        return self._quant(node, p, fc, True)

    def sp_exists(self, node, p, fc):
        return self._quant(node, p, fc, False)

    def sp_isa(self, node, p, fc):
        v = self.ev(node.args[0], p, fc)[0].v
        cls = ast.literal_eval(node.args[1])
        if isinstance(v, VUnion):
            return [Res(p, VBool(z3.And(v.is_('ref'), z3.Select(harr(p, '$cls'), v.get('ref')) == cls_code(cls),
                                        v.get('ref') > 0, v.get('ref') < next_ref(p))))]
        if isinstance(v, VRef):
            return [Res(p, VBool(z3.And(z3.Select(harr(p, '$cls'), v.t) == cls_code(cls), v.t > 0, v.t < next_ref(p))))]
        return [Res(p, VBool(False))]

    def sp_unfold(self, node, p, fc):
        # unfold(f(args)): force one more definitional unfolding of a recursive spec application
        call = node.args[0]
        f = self.specs.funcs[call.func.id]
        vs = [self.ev(a, p, fc)[0].v for a in call.args]
        terms = [self.coerce_to(v, t) for v, (n, t) in zip(vs, f.params)]
        app = self.spec_uf(f)(*terms)
        sfc = FnCtx(self.specs.module_ctx, 'spec:' + f.name, spec=True)
        sfc.unfold_depth = 1
        sfc.old = fc.old
        body = self.eval_spec_body(f, [self.value_of_type(t, ty) for t, (n, ty) in zip(terms, f.params)], p, sfc)
        p.assume(self.veq(p, self.value_of_type(app, f.ret), body))
        return [Res(p, VBool(True))]

    def sp_contains(self, node, p, fc):
        d = self.ev(node.args[0], p, fc)[0].v
        k = self.ev(node.args[1], p, fc)[0].v
        if isinstance(d, VUnion):
            d = VRef(d.get('ref'))
        return [Res(p, VBool(z3.Select(harr(p, '$dom'), d.t, self.key_term(k, p))))]

    def sp_unchanged(self, node, p, fc):
        # unchanged(x.f, ...): field values equal to their old() values
        terms = []
        for a in node.args:
            cur = self.ev(a, p, fc)[0].v
            old = self.sp_old(ast.Call(func=ast.Name(id='old'), args=[a], keywords=[]), p, fc)[0].v
            terms.append(self.veq(p, cur, old))
        return [Res(p, VBool(z3.And(*terms)))]
