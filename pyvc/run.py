"""Unit runner: verify contracts / lemmas / spec functions, discharge obligations."""
import sys, time, glob, os, json, traceback
import z3
from . import front, speclang
from .values import Unsupported
from .verify import Engine, solve


def load(repo_root='/repo', spec_dir=None):
    repo = front.Repo(repo_root)
    spec_dir = spec_dir or os.path.join(os.path.dirname(os.path.dirname(os.path.abspath(__file__))), 'specs')
    paths = sorted(glob.glob(os.path.join(spec_dir, '*.py')))
    paths = [p for p in paths if not p.endswith('__init__.py')]
    specs = speclang.Specs(paths)
    m = front.ModuleInfo('specs', '<specs>', None, '')
    m.imports = {'v31': ('mqtt', 'v31'), 'v311': ('mqtt', 'v311')}
    specs.module_ctx = m
    return repo, specs


def list_units(specs):
    units = []
    for f in specs.funcs.values():
        if f.recursive:
            units.append(('spec', f.name, None))
    for l in specs.lemmas.values():
        units.append(('lemma', l.name, None))
    for target, cs in specs.contracts.items():
        for c in cs:
            if c.classes:
                for cls in c.classes:
                    units.append(('contract', c.key, cls))
            else:
                units.append(('contract', c.key, None))
    return units


def run_unit(repo, specs, unit, timeout_ms=10000):
    kind, name, cls = unit
    eng = Engine(repo, specs)
    t0 = time.time()
    status = 'ok'
    detail = ''
    try:
        if kind == 'spec':
            eng.verify_spec_fn(specs.funcs[name])
        elif kind == 'lemma':
            eng.verify_lemma(specs.lemmas[name])
        else:
            target, cname = name.split('#')
            c = [c for c in specs.contracts[target] if c.name == cname][0]
            eng.verify_contract(c, cls)
    except Unsupported as e:
        status = 'unsupported'
        detail = str(e)
    except Exception as e:
        status = 'crash'
        detail = traceback.format_exc()
    gen_s = time.time() - t0
    results = []
    for o in eng.obls:
        r, backend, dt, model, det = solve(o.assumptions, o.goal, timeout_ms)
        o.result, o.backend, o.time, o.model, o.detail = r, backend, dt, model, det
        results.append(o)
    return eng, status, detail, results, gen_s


def main(argv):
    repo_root = '/repo'
    pats = []
    verbose = False
    for a in argv:
        if a.startswith('--repo='):
            repo_root = a[7:]
        elif a == '-v':
            verbose = True
        else:
            pats.append(a)
    repo, specs = load(repo_root)
    units = list_units(specs)
    if pats:
        units = [u for u in units if any(p in u[1] for p in pats)]
    bad = 0
    for u in units:
        eng, status, detail, results, gen_s = run_unit(repo, specs, u)
        canaries = [o for o in results if o.kind == 'canary']
        results = [o for o in results if o.kind != 'canary']
        vac = canaries and all(o.result == 'proved' for o in canaries)
        if vac:
            status = 'VACUOUS'
        np = sum(1 for o in results if o.result == 'proved')
        print('%-9s %-60s %s gen=%.1fs obl=%d proved=%d covers=%s' % (u[0], u[1] + ('@' + u[2] if u[2] else ''), status, gen_s, len(results), np, getattr(eng, 'covers', '?')))
        if status != 'ok':
            print('    ', detail)
            bad += 1
        for o in results:
            if o.result != 'proved' or verbose:
                print('    %-8s %-7s %5.2fs %s' % (o.result, o.backend, o.time, o.name))
                if o.result != 'proved':
                    bad += 1
                    print('        trace:', ' ; '.join(o.trace[-8:]))
                    if o.model is not None:
                        ins = {}
                        for n, v in o.inputs.items():
                            if hasattr(v, 't') and v.t is not None:
                                try:
                                    ins[n] = str(o.model.eval(v.t, model_completion=True))[:80]
                                except Exception:
                                    pass
                        print('        model:', ins)
                    if o.detail:
                        print('        ', o.detail)
    return 1 if bad else 0


if __name__ == '__main__':
    sys.exit(main(sys.argv[1:]))
