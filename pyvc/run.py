"""Unit runner: verify contracts / lemmas / spec functions in parallel, discharge obligations."""
import sys, time, glob, os, json, traceback, itertools, multiprocessing
import z3
from . import front, speclang
from .values import Unsupported
from .verify import Engine, solve

_G = {}


def load(repo_root='/repo', spec_dir=None):
    repo = front.Repo(repo_root)
    # locals renamed with respect to the committed baseline are mapped back (pure alpha-renamings only, see alpha.py)
    try:
        from . import alpha
        lp = os.path.join(os.path.dirname(os.path.dirname(os.path.abspath(__file__))), 'ledger.json')
        base = json.load(open(lp)).get('$alpha') if os.path.exists(lp) else None
        repo.alpha_base = base or {}
        repo.alpha_renamed = alpha.normalise(repo, base)
    except Exception as e:      # never let the convenience break a run: without it renamed locals make units undecided
        repo.alpha_renamed = []
        repo.alpha_error = repr(e)
    spec_dir = spec_dir or os.path.join(os.path.dirname(os.path.dirname(os.path.abspath(__file__))), 'specs')
    paths = sorted(glob.glob(os.path.join(spec_dir, '*.py')))
    paths = [p for p in paths if not p.endswith('__init__.py')]
    specs = speclang.Specs(paths)
    m = front.ModuleInfo('specs', '<specs>', None, '')
    m.imports = {'v31': ('mqtt', 'v31'), 'v311': ('mqtt', 'v311')}
    specs.module_ctx = m
    return repo, specs


def list_units(specs):
    units = []
    for f in specs.funcs.values():
        if getattr(f, 'self_recursive', f.recursive):
            units.append(('spec', f.name, None, None))
    for l in specs.lemmas.values():
        units.append(('lemma', l.name, None, None))
    for target, cs in specs.contracts.items():
        for c in cs:
            if c.options.get('assumed'):
                continue
            combos = [None]
            if 'split' in c.options:
                ptypes = dict(c.params)
                doms = []
                for n in c.options['split']:
                    t = ptypes[n]
                    doms.append([(n, x) for x in ((0, 1) if t == 'bool' else (('v31', 'v311') if t == 'Ver' else (0, 1, 2)))])
                combos = [tuple(x) for x in itertools.product(*doms)]
            for cls in (c.classes or [None]):
                for combo in combos:
                    units.append(('contract', c.key, cls, combo))
    return units


def unit_label(u):
    return u[1] + ('@' + u[2] if u[2] else '') + (('[%s]' % ','.join('%s=%s' % kv for kv in u[3])) if u[3] else '')


def unit_props(specs, u):
    kind, name, cls, combo = u
    if kind == 'lemma':
        return specs.lemmas[name].props
    if kind == 'contract':
        target, cname = name.split('#')
        return [c for c in specs.contracts[target] if c.name == cname][0].props
    return []


def run_unit(repo, specs, unit, timeout_ms=10000):
    kind, name, cls, combo = unit
    eng = Engine(repo, specs)
    t0 = time.time()
    status = 'ok'
    detail = ''
    try:
        if kind == 'spec':
            eng.verify_spec_fn(specs.funcs[name])
        elif kind == 'lemma':
            eng.verify_lemma(specs.lemmas[name])
        else:
            target, cname = name.split('#')
            c = [c for c in specs.contracts[target] if c.name == cname][0]
            eng.verify_contract(c, cls, combo)
    except Unsupported as e:
        status = 'unsupported'
        detail = str(e)
    except Exception as e:
        status = 'crash'
        detail = traceback.format_exc()
    gen_s = time.time() - t0
    # a contract / lemma may ask for a larger solver budget than the tier's (option solver_ms=...): a few sequence-heavy
    # obligations are decided only by the later, longer attempts of the seed plan, and must not flip on a slower machine
    try:
        opts = (specs.lemmas[name].options if kind == 'lemma' else c.options) if kind != 'spec' else {}
    except Exception:
        opts = {}
    timeout_ms = max(timeout_ms, int(opts.get('solver_ms', 0) or 0))
    results = solve_all(eng, eng.obls, timeout_ms)
    return eng, status, detail, results, gen_s


def solve_all(eng, obls, timeout_ms):
    """discharge obligations in a forked child that reports one result at a time; the parent kills the child when an
    obligation produces nothing within its budget (z3 sometimes ignores both its timeout and interrupts) and resumes
    with a fresh child at the next obligation.  Models of failed obligations are concretised inside the child."""
    from .concretize import concretize
    n = len(obls)
    start = 0
    ctx = multiprocessing.get_context('fork')
    budget = timeout_ms * 1.6 / 1000.0 + 60.0

    def child(conn, first, shift):
        nconc = 0
        for i in range(first, n):
            o = obls[i]
            try:
                r, backend, dt, model, det = solve(o.assumptions, o.goal, timeout_ms, quick=(o.kind in ('canary', 'policy') and z3.is_false(o.goal)),
                                                   seed_shift=(shift if i == first else 0))
                if o.kind == 'policy' and z3.is_false(o.goal) and r != 'proved':
                    # a structural rule (the code uses a per-address table other than by [self.addr]) is broken on a
                    # path the engine reached: no input is needed to show it; only a refuted path condition excuses it
                    r, det = 'failed', 'structural access-policy violation on a reachable path (no model needed)'
            except Exception as e:
                r, backend, dt, model, det = 'unknown', 'error', 0.0, None, repr(e)[:200]
            o.result, o.model = r, model
            conc = None
            ins = {}
            if model is not None:
                ins = model_inputs(o)
                if r == 'failed' and o.kind != 'canary' and nconc < 3:
                    try:
                        conc = concretize(eng, _G['specs'], _G['repo'], _G['unit'], o)
                    except Exception:
                        conc = None
                    nconc += 1
            conn.send((i, r, backend, dt, det, ins, conc))
        conn.close()

    hangs = {}      # obligation index -> how often the solver hung on it
    while start < n:
        parent, ch = ctx.Pipe(duplex=False)
        pr = ctx.Process(target=child, args=(ch, start, 3 * hangs.get(start, 0)))
        pr.start()
        ch.close()
        nxt = start
        hung = False
        while nxt < n:
            if parent.poll(budget):
                try:
                    i, r, backend, dt, det, ins, conc = parent.recv()
                except EOFError:
                    hung = True
                    break
                o = obls[i]
                o.result, o.backend, o.time, o.detail = r, backend, dt, det
                o.model = None
                o.model_inputs = ins
                o.concrete = conc
                nxt = i + 1
            else:
                hung = True
                break
        if hung:
            pr.terminate()
            pr.join(5)
            if nxt < n and hangs.get(nxt, 0) < 2 and obls[nxt].kind != 'canary':
                # z3's sequence solver is unstable: the same query that hangs with one random seed is often decided in a
                # second with another; retry this obligation (twice at most) in a fresh child with the seed plan rotated
                hangs[nxt] = hangs.get(nxt, 0) + 1
            elif nxt < n:
                o = obls[nxt]
                o.result, o.backend, o.time, o.detail = 'unknown', 'z3', budget, 'solver did not return within %.0fs (killed; %d retries with other seeds)' % (budget, hangs.get(nxt, 0))
                o.model = None
                o.model_inputs = {}
                o.concrete = None
                nxt += 1
        else:
            pr.join(5)
        parent.close()
        start = nxt
    return list(obls)


def model_inputs(o):
    ins = {}
    if getattr(o, 'model_inputs', None):
        return o.model_inputs
    if o.model is None:
        return ins
    for n, v in o.inputs.items():
        if hasattr(v, 't') and v.t is not None:
            try:
                ins[n] = str(o.model.eval(v.t, model_completion=True))
            except Exception:
                pass
    return ins


def _work(args):
    unit, timeout_ms = args
    repo, specs = _G['repo'], _G['specs']
    _G['unit'] = unit
    eng, status, detail, results, gen_s = run_unit(repo, specs, unit, timeout_ms)
    obls = []
    from .concretize import concretize
    nconc = 0
    for o in results:
        conc = getattr(o, 'concrete', None)
        obls.append({'concrete': conc, 'name': o.name, 'kind': o.kind, 'result': o.result, 'backend': o.backend, 'solver_s': round(o.time, 3),
                     'trace': o.trace[-10:], 'model': model_inputs(o), 'detail': o.detail,
                     'goal': str(o.goal)[:400] if o.result != 'proved' else ''})
    battery = None
    if unit[0] == 'contract':
        import ast as _ast
        target, cname = unit[1].split('#')
        c = [c for c in specs.contracts[target] if c.name == cname][0]
        found = repo.function(target)
        if found is not None and found[3] is None and (found[1] is None or found[1].qname.startswith('mqtt.pdu.')):
            module, ci, fnode, outer = found
            real = [a.arg for a in fnode.args.args]
            def tname(t):
                return t if isinstance(t, str) else 'Ref'
            if all(n == 'self' or tname(t) != 'Ref' for (n, t) in c.params):
                battery = {'target': module.name + ':' + (ci.qname.split('.')[-1] + '.' if ci else '') + fnode.name,
                           'params': [(n, tname(t), n in real) for (n, t) in c.params],
                           'lets': [(n, _ast.unparse(e)) for (n, e) in c.lets],
                           'requires': [_ast.unparse(e) for e in c.requires],
                           'raises': [(e, _ast.unparse(w) if w is not None else None) for (e, w) in c.raises],
                           'ensures': [_ast.unparse(e) for e in c.ensures],
                           'ensures_raise': [_ast.unparse(e) for e in c.ensures_raise], 'samples': 600}
    return {'battery': battery, 'unit': unit, 'label': unit_label(unit), 'status': status, 'detail': detail, 'gen_s': round(gen_s, 2),
            'obligations': obls, 'covers': getattr(eng, 'covers', None), 'inlined': sorted(eng.inlined),
            'used_contracts': sorted(eng.used_contracts), 'fn_hash': getattr(eng, 'fn_hash', None),
            'notes': eng.notes}


def _child(conn, unit, timeout_ms):
    try:
        conn.send(_work((unit, timeout_ms)))
    except Exception:
        conn.send({'unit': unit, 'label': unit_label(unit), 'status': 'crash', 'detail': traceback.format_exc(), 'gen_s': 0,
                   'obligations': [], 'covers': None, 'inlined': [], 'used_contracts': [], 'fn_hash': None, 'notes': [],
                   'battery': None})
    finally:
        conn.close()


def unit_deadline(specs, u):
    if u[0] != 'contract':
        return 0
    target, cname = u[1].split('#')
    c = [c for c in specs.contracts[target] if c.name == cname][0]
    return c.options.get('deadline', 0)


def run_units(repo, specs, units, jobs=16, timeout_ms=10000, unit_deadline_s=None):
    """one forked process per unit, at most `jobs` at a time, each under a hard wall-clock deadline (z3 does not
    always honour its own timeout): a unit that exceeds it is reported as status 'timeout' (undecided)"""
    _G['repo'], _G['specs'] = repo, specs
    if unit_deadline_s is None:
        unit_deadline_s = max(900, timeout_ms * 60 // 1000)      # generous: wall-clock, so it must hold on a busy machine
    if jobs <= 1 and len(units) <= 1 and not os.environ.get('PYVC_FORK'):
        return [_work((u, timeout_ms)) for u in units]
    ctx = multiprocessing.get_context('fork')
    pending = list(enumerate(units))
    running = {}
    results = [None] * len(units)
    while pending or running:
        while pending and len(running) < jobs:
            i, u = pending.pop(0)
            parent, child = ctx.Pipe(duplex=False)
            pr = ctx.Process(target=_child, args=(child, u, timeout_ms))
            pr.start()
            child.close()
            running[i] = (pr, parent, time.time(), u)
        done = []
        for i, (pr, conn, t0, u) in running.items():
            if conn.poll(0.02):
                try:
                    results[i] = conn.recv()
                except EOFError:
                    results[i] = None
                pr.join(5)
                done.append(i)
            elif not pr.is_alive():
                pr.join()
                done.append(i)
            elif time.time() - t0 > max(unit_deadline_s, unit_deadline(specs, u)):
                pr.terminate()
                pr.join(5)
                results[i] = {'unit': u, 'label': unit_label(u), 'status': 'timeout',
                              'detail': 'unit exceeded its wall-clock deadline of %ds' % unit_deadline_s, 'gen_s': unit_deadline_s,
                              'obligations': [], 'covers': None, 'inlined': [], 'used_contracts': [], 'fn_hash': None,
                              'notes': [], 'battery': None}
                done.append(i)
        for i in done:
            pr, conn, t0, u = running.pop(i)
            conn.close()
            if results[i] is None:
                results[i] = {'unit': u, 'label': unit_label(u), 'status': 'crash', 'detail': 'worker died', 'gen_s': 0,
                              'obligations': [], 'covers': None, 'inlined': [], 'used_contracts': [], 'fn_hash': None,
                              'notes': [], 'battery': None}
        if not done:
            time.sleep(0.05)
    return results


def summarize(res, verbose=False):
    bad = 0
    for r in res:
        obls = r['obligations']
        canaries = [o for o in obls if o['kind'] == 'canary']
        real = [o for o in obls if o['kind'] != 'canary']
        status = r['status']
        if canaries and all(o['result'] == 'proved' for o in canaries):
            status = 'VACUOUS'
        if status == 'ok' and r['unit'][0] == 'contract' and not canaries:
            status = 'VACUOUS(no exit path)'
        np_ = sum(1 for o in real if o['result'] == 'proved')
        print('%-70s %s gen=%.1fs obl=%d proved=%d covers=%s' % (r['label'], status, r['gen_s'], len(real), np_, r['covers']))
        if status != 'ok':
            print('    ', r['detail'])
            bad += 1
        for o in real:
            if o['result'] != 'proved' or verbose:
                print('    %-8s %-10s %5.2fs %s' % (o['result'], o['backend'], o['solver_s'], o['name']))
                if o['result'] != 'proved':
                    bad += 1
                    print('        trace:', ' ; '.join(o['trace'][-8:]))
                    if o['model']:
                        print('        model:', {k: v[:80] for k, v in o['model'].items()})
                    if o['detail']:
                        print('        ', o['detail'][:300])
    return bad


def main(argv):
    repo_root = '/repo'
    pats = []
    verbose = False
    jobs = 16
    tmo = 10000
    for a in argv:
        if a.startswith('--repo='):
            repo_root = a[7:]
        elif a.startswith('-j'):
            jobs = int(a[2:])
        elif a.startswith('--timeout='):
            tmo = int(a[10:])
        elif a == '-v':
            verbose = True
        else:
            pats.append(a)
    repo, specs = load(repo_root)
    units = list_units(specs)
    if pats:
        units = [u for u in units if any(p in unit_label(u) for p in pats)]
    t0 = time.time()
    res = run_units(repo, specs, units, jobs, tmo)
    bad = summarize(res, verbose)
    print('units=%d wall=%.1fs' % (len(units), time.time() - t0))
    return 1 if bad else 0


if __name__ == '__main__':
    sys.exit(main(sys.argv[1:]))
