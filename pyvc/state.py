"""Symbolic state (Path), heap model, solver helpers."""
import z3, hashlib
from .values import *

A1 = lambda rng: z3.ArraySort(I, rng)
A2 = lambda rng: z3.ArraySort(I, I, rng)

# special heap arrays
SPECIAL = {
    '$cls': A1(I),            # dynamic class code of an object
    '$dom': A2(B),            # dict: key membership
    '$val': A2(I),            # dict: value (always a reference)
    '$card': A1(I),           # dict: number of keys
    '$ord': A2(I),            # dict: insertion stamp of a key
    '$clock': A1(I),          # dict: next insertion stamp
    '$dq': A2(I),             # deque: element (a reference) at absolute index
    '$dqh': A1(I),            # deque: absolute index of the head
    '$dqt': A1(I),            # deque: absolute index one past the tail
}

_cls_codes = {}


def cls_code(name):
    if name not in _cls_codes:
        _cls_codes[name] = len(_cls_codes) + 1
    return _cls_codes[name]


def cls_name(code):
    for k, v in _cls_codes.items():
        if v == code:
            return k
    return None


_fn_codes = {}


def fn_code(name):
    if name not in _fn_codes:
        _fn_codes[name] = len(_fn_codes) + 1
    return _fn_codes[name]


_exc_codes = {}


def exc_code(name):
    if name not in _exc_codes:
        _exc_codes[name] = len(_exc_codes) + 1
    return _exc_codes[name]


class Path:
    """One symbolic execution path."""
    _uid = [0]

    def __init__(self):
        self.env = {}
        self.heap = {}        # array name -> z3 term
        self.pc = []          # assumptions (path condition + instantiated facts)
        self.allocs = []      # refs allocated on this path (z3 terms)
        self.trace = []       # human-readable branch decisions
        self.ghost = {}       # misc per-path ghost (python level)
        self.unset_locals = set()
        self.epoch = '0'      # heap epoch: arrays first touched after an `all_but` havoc are post-havoc symbols

    def fork(self):
        q = Path.__new__(Path)
        q.env = dict(self.env)
        q.heap = dict(self.heap)
        q.pc = list(self.pc)
        q.allocs = list(self.allocs)
        q.trace = list(self.trace)
        q.ghost = dict(self.ghost)
        q.unset_locals = set(self.unset_locals)
        q.epoch = self.epoch
        return q

    def assume(self, f):
        if z3.is_true(f):
            return
        self.pc.append(f)

    @classmethod
    def fresh_name(cls, base):
        cls._uid[0] += 1
        return '%s!%d' % (base, cls._uid[0])


def fresh(base, sort):
    return z3.Const(Path.fresh_name(base), sort)


# ---- heap access ----------------------------------------------------------------------------------

def harr(p, name, sort=None):
    """current array term for heap array `name` (lazily created base symbol = value at unit entry)"""
    if name not in p.heap:
        if name in SPECIAL:
            sort = SPECIAL[name]
        assert sort is not None, name
        base = z3.Const('H%s_%s' % (p.epoch, name), sort)
        p.heap[name] = base
        if name.startswith('f:') and p.epoch == '0':
            # objects allocated later on this path did not exist at entry: all their fields are unset
            for a in p.allocs:
                p.assume(z3.Select(base, a) == Val.v_unset)
    return p.heap[name]


def farr(p, f):
    """array of field f: Ref -> Val"""
    return harr(p, 'f:' + f, A1(Val))


def next_ref(p):
    if '$next' not in p.heap:
        p.heap['$next'] = z3.Int('H%s_$next' % p.epoch)
        p.assume(p.heap['$next'] > 0)
    return p.heap['$next']


def alloc(p, clsname):
    n = next_ref(p)
    r = fresh('new_' + clsname.split('.')[-1], I)
    p.assume(r == n)
    p.heap['$next'] = n + 1
    for name, arr in list(p.heap.items()):
        if name.startswith('f:'):
            p.assume(z3.Select(arr, r) == Val.v_unset)
    p.allocs.append(r)
    c = harr(p, '$cls')
    p.heap['$cls'] = z3.Store(c, r, cls_code(clsname))
    if clsname in ('dict', 'deque'):
        pass
    return VRef(r, clsname)


def to_val(v):
    """Val term of a value"""
    if isinstance(v, VUnion):
        return v.t
    k, term = storable(v)
    return val_mk(k, term)


def store_value(p, f, r, v):
    """write value v into field f of object r"""
    p.heap['f:' + f] = z3.Store(farr(p, f), r, to_val(v))


def storable(v):
    """(kind, z3 term|None) of a value that can be stored in a field / list / ghost slot"""
    if isinstance(v, VNone):
        return 'none', None
    if isinstance(v, (VInt, VBool, VReal, VStr, VBytes, VRef, VVer, VObj, VList, VPair, VExcVal)):
        return v.kind, v.t
    if isinstance(v, VTuple):
        if len(v.items) == 2:
            a, b = v.items
            if isinstance(a, VStr) and isinstance(b, VInt):
                return 'pair_si', PairSI.mk_si(a.t, b.t)
            if isinstance(a, VInt) and isinstance(b, VBool):
                return 'pair_ib', PairIB.mk_ib(a.t, b.t)
        raise Unsupported('tuple shape not storable: %r' % (v,))
    if isinstance(v, VExc):
        return 'exc', z3.IntVal(exc_code(v.cls))
    if isinstance(v, VFunc):
        if v.t is not None:
            return 'func', v.t
        return 'func', z3.IntVal(fn_code(v.name))
    if isinstance(v, VOpaque):
        return 'obj', fresh('opaque', I)
    raise Unsupported('value not storable: %r' % (v,))


def load_value(p, f, r):
    return VUnion(z3.Select(farr(p, f), r), desc='.' + f)      # (formatting the reference term here costs milliseconds)


def mk_value(kind, term, cls=None):
    if kind == 'none':
        return VNone()
    if kind == 'int':
        return VInt(term)
    if kind == 'bool':
        return VBool(term)
    if kind == 'real':
        return VReal(term)
    if kind == 'str':
        return VStr(term)
    if kind == 'bytes':
        return VBytes(term)
    if kind == 'ref':
        return VRef(term, cls)
    if kind == 'ver':
        return VVer(term)
    if kind == 'obj':
        return VObj(term)
    if kind in ELEM_OF:
        return VList(term, ELEM_OF[kind])
    if kind in ('pair_si', 'pair_ib'):
        return VPair(term, kind)
    if kind == 'exc':
        return VExcVal(term)
    if kind == 'func':
        return VFunc('cb', 'callable', t=term)
    raise Unsupported('mk_value ' + kind)


# ---- solver helpers -------------------------------------------------------------------------------

class SolverStats:
    calls = 0
    time = 0.0


def check_sat(assumptions, timeout_ms=2000):
    """returns 'sat' | 'unsat' | 'unknown' and the solver"""
    import time
    s = z3.Solver()
    s.set('timeout', timeout_ms)
    for a in assumptions:
        s.add(a)
    t0 = time.time()
    import threading
    wd = threading.Timer(timeout_ms / 1000.0 + 3.0, s.ctx.interrupt)
    wd.daemon = True
    wd.start()
    try:
        r = s.check()
    except z3.Z3Exception:
        r = z3.unknown
    finally:
        wd.cancel()
    SolverStats.calls += 1
    SolverStats.time += time.time() - t0
    return str(r), s


_heavy_cache = {}
HEAVY_FUNCS = ('utf8', 'utf8dec', 'valid_utf8', 'encodable', 'strlen', 'ascii_ignore')


def is_heavy(a):
    """does the assumption mention the abstract string theory (hard for z3's sequence solver when it has to
    build long witnesses)?  Such assumptions are left out of *feasibility* queries only, which makes those
    queries over-approximate (more paths kept) and therefore stays sound; obligations always use the full pc."""
    k = a.get_id()
    hit = _heavy_cache.get(k)
    if hit is not None and hit[0].eq(a):      # the term is kept alive in the cache, so ids cannot be recycled
        return hit[1]
    heavy = False
    stack = [a]
    seen = set()
    while stack:
        t = stack.pop()
        if t.get_id() in seen:
            continue
        seen.add(t.get_id())
        if z3.is_app(t):
            if t.decl().name() in HEAVY_FUNCS:
                heavy = True
                break
            stack.extend(t.children())
        elif z3.is_quantifier(t):
            stack.append(t.body())
    _heavy_cache[k] = (a, heavy)
    return heavy


def light_pc(p):
    return [a for a in p.pc if not is_heavy(a)]


def lighter_pc(p):
    """for path feasibility only: also without quantified hypotheses (over-approximation: more paths kept)"""
    return [a for a in p.pc if not is_heavy(a) and not z3.is_quantifier(a)]


def feasible(p, extra=None, timeout_ms=400):
    asm = lighter_pc(p)
    if extra is not None:
        if z3.is_false(extra):
            return False
        asm.append(extra)
    r, _ = check_sat(asm, timeout_ms)
    return r != 'unsat'


def feasible_full(p, extra, timeout_ms=500):
    """second opinion with the complete path condition (only worth it where pruning saves whole paths)"""
    r, _ = check_sat(list(p.pc) + [extra], timeout_ms)
    return r != 'unsat'


def entails(p, f, timeout_ms=600):
    if z3.is_true(f):
        return True
    r, _ = check_sat(list(p.pc) + [z3.Not(f)], timeout_ms)
    return r == 'unsat'
