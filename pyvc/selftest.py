"""setup_cmd: offline sanity of the tool chain and of the reference encoder against the standard's byte vectors."""
import sys, os
sys.path.insert(0, os.path.dirname(os.path.dirname(os.path.abspath(__file__))))


def main():
    import z3
    assert z3.get_version_string().startswith('5.'), z3.get_version_string()
    assert os.path.exists('/usr/bin/cvc5')
    import glob, importlib
    for f in sorted(glob.glob(os.path.join(os.path.dirname(os.path.dirname(os.path.abspath(__file__))), 'specs', '*.py'))):
        n = os.path.basename(f)[:-3]
        if n != '__init__':
            importlib.import_module('specs.' + n)      # every sidecar must be importable natively (replay needs it)
    from specs import wire as W
    vec = {0: '00', 127: '7f', 128: '8001', 16383: 'ff7f', 16384: '808001', 2097151: 'ffff7f', 2097152: '80808001',
           268435455: 'ffffff7f', 64: '40', 321: 'c102'}
    for n, h in vec.items():
        assert W.varint(n).hex() == h, (n, W.varint(n).hex())
        assert W.dl(W.varint(n) + b'\xff') == n
    assert W.mstr('MQTT').hex() == '00044d515454'
    assert (W.mstr('MQTT') + W.seq(4)).hex() == '00044d51545404'
    assert (W.mstr('MQIsdp') + W.seq(3)).hex() == '00064d514973647003'
    assert W.sPINGREQ().hex() == 'c000' and W.sPINGRESP().hex() == 'd000' and W.sDISCONNECT().hex() == 'e000'
    assert W.sPUBACK(10).hex() == '4002000a' and W.sPUBREL(1).hex() == '62020001' and W.sPUBCOMP(1).hex() == '70020001'
    assert W.sCONNACK(False, 0).hex() == '20020000'
    assert W.sSUBSCRIBE(10, [('a/b', 1)]).hex() == '8208000a0003612f6201'
    assert W.sUNSUBSCRIBE(10, ['a/b']).hex() == 'a207000a0003612f62'
    assert W.sPUBLISH(False, 1, False, 'a/b', 10, b'hi').hex() == '32090003612f62000a6869'
    assert W.frames(W.sPUBACK(1) + W.sPINGRESP() + b'\x30') == [W.sPUBACK(1), W.sPINGRESP()] and W.rem(W.sPUBACK(1) + b'\x30') == b'\x30'
    print('selftest ok')
    return 0


if __name__ == '__main__':
    sys.exit(main())
