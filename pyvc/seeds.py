"""Run the registered checks against every confirmed seeded change (on a scratch copy, /repo is not touched):
  python3-vt -m pyvc.seeds [name ...]      writes /verif/seeded/<name>/detected.json"""
import sys, os, json, shutil, subprocess, tempfile, time

VERIF = os.path.dirname(os.path.dirname(os.path.abspath(__file__)))


def main(argv):
    names = argv or sorted(os.listdir(os.path.join(VERIF, 'seeded')))
    manifest = json.load(open(os.path.join(VERIF, 'MANIFEST.json')))
    claimed = [c['property_id'] for c in manifest['checks']]
    for name in names:
        d = os.path.join(VERIF, 'seeded', name)
        meta = json.load(open(os.path.join(d, 'meta.json')))
        prop = meta['property']
        scratch = tempfile.mkdtemp(prefix='pyvc_seed_', dir='/tmp')
        try:
            shutil.copytree('/repo/src', os.path.join(scratch, 'src'), ignore=shutil.ignore_patterns('__pycache__'))
            r = subprocess.run(['git', 'apply', '--unsafe-paths', '--directory=' + scratch, os.path.join(d, 'patch.diff')],
                               capture_output=True, text=True, cwd='/')
            if r.returncode != 0:
                r = subprocess.run(['patch', '-p1', '-d', scratch, '-i', os.path.join(d, 'patch.diff')], capture_output=True, text=True)
            if r.returncode != 0:
                print(name, 'PATCH DOES NOT APPLY', r.stderr[:200])
                continue
            results = {}
            props = [prop] if prop in claimed else []
            for pid in props:
                t0 = time.time()
                out = subprocess.run([sys.executable, '-m', 'pyvc.check', pid, '--repo=' + scratch, '--no-evidence'], cwd=VERIF,
                                     capture_output=True, text=True)
                lines = [l for l in out.stdout.splitlines() if l.startswith(('VIOLATION', 'UNDECIDED', 'CHECKER', 'KNOWN'))]
                results[pid] = {'exit': out.returncode, 'wall_s': round(time.time() - t0, 1),
                                'lines': [l.replace(scratch, '<scratch>')[:400] for l in lines[:8]]}
                print(name, pid, 'exit', out.returncode, (lines[0][:160] if lines else ''), flush=True)
            if not props:
                print(name, prop, 'not claimed yet', flush=True)
            json.dump({'checked_at_repo': subprocess.run(['git', '-C', '/repo', 'rev-parse', '--short', 'HEAD'], capture_output=True, text=True).stdout.strip(),
                       'results': results}, open(os.path.join(d, 'detected.json'), 'w'), indent=1)
        finally:
            shutil.rmtree(scratch, ignore_errors=True)


if __name__ == '__main__':
    main(sys.argv[1:])
