"""Apply a textual mutation to a scratch copy of the repo sources and run units (engine self-test)."""
import sys, os, shutil, subprocess, tempfile
def main():
    rel, old, new = sys.argv[1:4]
    pats = sys.argv[4:]
    d = tempfile.mkdtemp(prefix='pyvc_mut_', dir='/tmp')
    try:
        shutil.copytree('/repo/src', os.path.join(d, 'src'), ignore=shutil.ignore_patterns('__pycache__', 'test'))
        p = os.path.join(d, rel)
        s = open(p).read()
        assert s.count(old) >= 1, 'pattern not found'
        s = s.replace(old, new, 1)
        open(p, 'w').write(s)
        r = subprocess.run([sys.executable, '-m', 'pyvc.run', '--repo=' + d] + pats, capture_output=True, text=True)
        print(r.stdout[-3000:], r.stderr[-2000:])
        print('exit', r.returncode)
    finally:
        shutil.rmtree(d)
main()
