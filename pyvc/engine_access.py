"""Engine mixin: attribute / subscript access and assignment targets."""
import ast, z3
from .values import *
from .state import *
from .engine import Res, FnCtx, as_int, as_num, is_num, const_int, simp


class AccessMixin:

    # ------------------------------------------------------------------ attributes
    def instance_assigned(self, attr):
        """is `X.attr = ...` assigned anywhere in the repo (then it is an instance field)"""
        if not hasattr(self, '_inst_assigned'):
            s = set()
            for m in self.repo.modules.values():
                for n in ast.walk(m.tree):
                    if isinstance(n, ast.Attribute) and isinstance(n.ctx, ast.Store):
                        s.add(n.attr)
            self._inst_assigned = s
        return attr in self._inst_assigned

    def ev_Attribute(self, node, p, fc):
        return self.bind(self.ev(node.value, p, fc), lambda q, v: self.get_attr(q, v, node.attr, fc, node))

    def get_attr(self, p, v, attr, fc, node=None):
        if isinstance(v, VUnion):
            if fc.spec:
                return self.get_attr(p, VRef(v.get('ref')), attr, fc, node)
            out = []
            for (q, c) in self.cases(p, v):
                out.extend(self.get_attr(q, c, attr, fc, node))
            return out
        if v is None:
            raise Unsupported('attribute of unset value')
        if isinstance(v, VNone):
            if fc.spec:
                raise Unsupported('spec: attribute %s of None' % attr)
            return [self.raise_(p, 'AttributeError', "None.%s in %s" % (attr, self.src(node) if node else attr))]
        if isinstance(v, VExt):
            return [Res(p, self.lib.ext_attr(self, v, attr))]
        if isinstance(v, VClass):
            if attr == '__name__':
                return [Res(p, VOpaque('class name'))]
            if v.repo_cls is not None:
                ci, fn = self.repo.find_method(v.name, attr)
                if fn is not None:
                    return [Res(p, VFunc('unbound', ci.qname + '.' + attr, node=fn, module=ci.module, cls=ci))]
                ci, ex = self.repo.find_class_attr(v.name, attr)
                if ex is not None:
                    return [Res(p, self.const_expr(ex, ci.module, p))]
            raise Unsupported('class attribute %s.%s' % (v.name, attr))
        if isinstance(v, VRef):
            if fc.spec and v.cls is None:
                return self.field_read(p, v, attr, fc, node)     # spec expressions read fields; no dispatch needed
            out = []
            for (q, cls) in self.classof(p, v):
                nv = VRef(v.t, cls)
                if getattr(v, 'outer', None) is not None:
                    nv.outer = v.outer
                out.extend(self.ref_attr(q, nv, attr, fc, node))
            return out
        if isinstance(v, (VBytes, VStr, VList)):
            return [Res(p, VFunc('builtin', type(v).__name__ + '.' + attr, self_v=v))]
        if isinstance(v, VExc):
            if attr == 'args':
                return [Res(p, VOpaque('exc args'))]
        if isinstance(v, VObj):
            # opaque objects (Failure reasons, addresses): attribute values are opaque
            return [Res(p, VOpaque('attr of opaque'))]
        raise Unsupported('attribute %s of %r' % (attr, v))

    def ref_attr(self, p, v, attr, fc, node):
        cls = v.cls
        if attr == '__class__':
            return [Res(p, VClass(cls, repo_cls=self.repo.classes.get(cls)))]
        if cls in self.lib.LIB_CLASSES:
            if attr in self.lib.LIB_CLASSES[cls]:
                return [Res(p, VFunc('builtin', cls + '.' + attr, self_v=v))]
            return self.field_read(p, v, attr, fc, node)
        if cls in self.repo.classes:
            ci, fn = self.repo.find_method(cls, attr)
            if fn is not None:
                return [Res(p, VFunc('method', ci.qname + '.' + attr, self_v=v, node=fn, module=ci.module, cls=ci))]
            ci, ex = self.repo.find_class_attr(cls, attr)
            if ex is not None and not self.instance_assigned(attr):
                if attr == 'callLater':
                    return [Res(p, VFunc('builtin', 'callLater', self_v=v))]
                return [Res(p, self.const_expr(ex, ci.module, p))]
            return self.field_read(p, v, attr, fc, node)
        raise Unsupported('attribute %s of object of class %s' % (attr, cls))

    def field_read(self, p, v, attr, fc, node):
        u = load_value(p, attr, v.t)
        u = VUnion(simp(u.t), u.desc)
        if fc.spec:
            return [Res(p, u)]
        self.policy_flag(u, attr)
        self.policy_object(p, v, 'read .' + attr, node)
        rs = []
        unset = (u.is_('unset'))
        if feasible(p, unset):
            q = p.fork()
            q.assume(unset)
            q.trace.append('%s unset' % u.desc)
            rs.append(self.raise_(q, 'AttributeError', '%s (attribute never assigned)' % (self.src(node) if node else attr)))
        p.assume(z3.Not(unset))
        rs.append(Res(p, u))
        return rs

    # ------------------------------------------------------------------ subscripts
    def ev_Subscript(self, node, p, fc):
        if isinstance(node.slice, ast.Slice):
            parts = [node.value] + [x for x in (node.slice.lower, node.slice.upper) if x is not None]
            if node.slice.step is not None:
                raise Unsupported('slice step')

            def f(q, vs):
                base = vs[0]
                i = 1
                lo = hi = None
                if node.slice.lower is not None:
                    lo = vs[i]
                    i += 1
                if node.slice.upper is not None:
                    hi = vs[i]
                out = []
                for (q2, b) in self.cases(q, base):
                    out.extend(self.slice_value(q2, b, lo, hi, fc, node))
                return out
            return self.bind(self.ev_many(parts, p, fc), f)

        def f(q, vs):
            out = []
            for (q2, b) in (self.cases(q, vs[0]) if not fc.spec else [(q, vs[0])]):
                for (q3, i) in (self.cases(q2, vs[1]) if not fc.spec else [(q2, vs[1])]):
                    out.extend(self.index_value(q3, b, i, fc, node))
            return out
        return self.bind(self.ev_many([node.value, node.slice], p, fc), f)

    def norm_bound(self, p, x, L, fc):
        """python slice bound normalisation: negative -> +len, clamp to [0, len]"""
        c = const_int(x)
        can_ask = not getattr(fc, 'in_quant', False)
        if c == 0:
            return z3.IntVal(0)
        if (c is not None and c >= 0) or (can_ask and entails(p, x >= 0)):
            if can_ask and entails(p, x <= L):
                return x
            return z3.If(x <= L, x, L)
        if fc.spec:
            # spec expressions: bounds are written non-negative; clamp
            return z3.If(x < 0, z3.IntVal(0), z3.If(x <= L, x, L))
        y = z3.If(x < 0, x + L, x)
        return z3.If(y < 0, 0, z3.If(y <= L, y, L))

    def slice_value(self, p, b, lo, hi, fc, node):
        if isinstance(b, VNone) or b is None:
            return [self.raise_(p, 'TypeError', self.src(node))]
        if not isinstance(b, (VBytes, VList)):
            if isinstance(b, VUnion) and fc.spec:
                b = VBytes(b.get('bytes'))
            else:
                raise Unsupported('slice of %r' % (b,))
        for x in (lo, hi):
            if x is not None and not is_num(x):
                if isinstance(x, VUnion) and fc.spec:
                    continue
                raise Unsupported('slice bound %r' % (x,))
        L = z3.Length(b.t)
        lo_t = self.norm_bound(p, as_int(self.spec_coerce(lo)), L, fc) if lo is not None else z3.IntVal(0)
        hi_t = self.norm_bound(p, as_int(self.spec_coerce(hi)), L, fc) if hi is not None else L
        if hi is None:
            n = L - lo_t
        elif lo is None:
            n = hi_t
        else:
            n = z3.If(hi_t > lo_t, hi_t - lo_t, 0)
            if not getattr(fc, 'in_quant', False) and entails(p, hi_t >= lo_t):
                n = hi_t - lo_t
        t = z3.Extract(b.t, lo_t, n)
        # decomposition facts (proved once in selftest: valid for 0 <= k <= len)
        if hi is None or lo is None:
            k = lo_t if hi is None else hi_t
            p.assume(z3.Implies(z3.And(k >= 0, k <= L),
                                z3.And(b.t == z3.Concat(z3.Extract(b.t, 0, k), z3.Extract(b.t, k, L - k)),
                                       z3.Length(z3.Extract(b.t, 0, k)) == k)))
        if isinstance(b, VBytes):
            return [Res(p, VBytes(t, b.code))]
        return [Res(p, VList(t, b.ek))]

    def elem_value(self, p, b, idx):
        """element idx of a sequence value (no bounds check)"""
        e = b.t[idx]
        sch = p.ghost.get('schemas')
        if sch:
            f = sch.get(b.t.sexpr())
            if f is not None:
                # quantified facts about this sequence (comprehension results, dict key sequences) are
                # instantiated at every read site: z3 does not E-match reliably on seq.nth patterns
                p.assume(f(idx))
        if isinstance(b, VBytes):
            if b.code:
                p.assume(z3.And(e >= 0, e <= 255))
            return VInt(e)
        ek = b.ek
        if ek == 'int':
            return VInt(e)
        if ek == 'str':
            return VStr(e)
        if ek == 'ref':
            r = VRef(e)
            self.wf_value(p, r)
            return r
        if ek == 'pair_si':
            return VTuple([VStr(PairSI.si_s(e)), VInt(PairSI.si_i(e))])
        if ek == 'pair_ib':
            return VTuple([VInt(PairIB.ib_i(e)), VBool(PairIB.ib_b(e))])
        if ek == 'bytes':
            return VBytes(e, False)
        raise Unsupported('element kind ' + ek)

    def index_value(self, p, b, i, fc, node):
        if b is None or isinstance(b, VNone):
            if fc.spec:
                raise Unsupported('spec: subscript of None/unset: ' + self.src(node))
            return [self.raise_(p, 'TypeError', self.src(node))]
        if isinstance(b, VUnion) and fc.spec:
            # spec: d[k] where d is a field holding a dict reference, or bytes
            b = VRef(b.get('ref'))
        if isinstance(b, (VBytes, VList)):
            if not is_num(i):
                if isinstance(i, VUnion) and fc.spec:
                    i = VInt(i.get('int'))
                else:
                    return [self.raise_(p, 'TypeError', self.src(node))]
            it = as_int(i)
            L = z3.Length(b.t)
            if fc.spec:
                return [Res(p, self.elem_value(p, b, it))]
            rs = []
            c = const_int(it)
            bad = z3.Or(it >= L, it < -L)
            if feasible(p, bad):
                q = p.fork()
                q.assume(bad)
                q.trace.append('index out of range: %s' % self.src(node))
                rs.append(self.raise_(q, 'IndexError', self.src(node)))
            p.assume(z3.Not(bad))
            if c is not None and c >= 0 or entails(p, it >= 0):
                idx = it
            else:
                idx = z3.If(it < 0, it + L, it)
            rs.append(Res(p, self.elem_value(p, b, idx)))
            return rs
        if type(b).__name__ == 'VKeys':
            return [Res(p, VInt(z3.Select(b.ka, as_int(self.spec_coerce(i)))))]
        if isinstance(b, VTuple):
            c = const_int(as_int(i))
            if c is None:
                raise Unsupported('tuple index not constant')
            if not (-len(b.items) <= c < len(b.items)):
                return [self.raise_(p, 'IndexError', self.src(node))]
            return [Res(p, b.items[c])]
        if isinstance(b, VPair):
            c = const_int(as_int(i))
            if b.pk == 'pair_si':
                items = [VStr(PairSI.si_s(b.t)), VInt(PairSI.si_i(b.t))]
            else:
                items = [VInt(PairIB.ib_i(b.t)), VBool(PairIB.ib_b(b.t))]
            if c is None or not (-2 <= c < 2):
                if c is None:
                    raise Unsupported('pair index not constant')
                return [self.raise_(p, 'IndexError', self.src(node))]
            return [Res(p, items[c])]
        if isinstance(b, VConstList):
            it = as_int(i)
            n = len(b.items)
            rs = []
            bad = z3.Or(it >= n, it < -n)
            if not fc.spec and feasible(p, bad):
                q = p.fork()
                q.assume(bad)
                q.trace.append('index out of range: %s' % self.src(node))
                rs.append(self.raise_(q, 'IndexError', self.src(node)))
            p.assume(z3.Not(bad))
            c = const_int(it)
            if c is not None:
                rs.append(Res(p, b.items[c]))
            else:
                rs.append(Res(p, VOpaque('element of constant list')))
            return rs
        if isinstance(b, VConstDict):
            it = as_int(i)
            rs = []
            inside = z3.Or(*[it == k for k in b.d]) if b.d else z3.BoolVal(False)
            if feasible(p, z3.Not(inside)):
                q = p.fork()
                q.assume(z3.Not(inside))
                q.trace.append('key not in constant dict: %s' % self.src(node))
                rs.append(self.raise_(q, 'KeyError', self.src(node)))
            for k, val in b.d.items():
                if feasible(p, it == k):
                    q = p.fork()
                    q.assume(it == k)
                    q.trace.append('%s == %r' % (self.src(node.slice), k))
                    rs.append(Res(q, val))
            return rs
        if isinstance(b, VVer):
            if not (isinstance(i, VStr) and i.const in ('tag', 'level')):
                raise Unsupported('version dict key')
            rs = []
            for code, which in ((VER_V31, 'v31'), (VER_V311, 'v311')):
                if feasible(p, b.t == code):
                    q = p.fork()
                    q.assume(b.t == code)
                    q.trace.append('version is %s' % which)
                    rs.append(Res(q, self.const_value(q, self.version_table(which)[i.const])))
            other = z3.And(b.t != VER_V31, b.t != VER_V311)
            if feasible(p, other):
                q = p.fork()
                q.assume(other)
                rs.append(self.raise_(q, 'TypeError', 'version object is not one of the two version dicts: ' + self.src(node)))
            return rs
        if isinstance(b, VRef):
            out = []
            if not fc.spec:
                self.policy_key(p, b, i, node)
            for (q, cls) in (self.classof(p, b) if not fc.spec else [(p, b.cls or 'dict')]):
                if cls == 'deque':
                    out.extend(self.deque_index(q, VRef(b.t, 'deque'), i, fc, node))
                    continue
                if cls != 'dict':
                    raise Unsupported('subscript of object of class %s' % cls)
                out.extend(self.dict_get(q, VRef(b.t, 'dict'), i, fc, node))
            return out
        raise Unsupported('subscript of %r: %s' % (b, self.src(node)))

    def deque_index(self, p, d, i, fc, node):
        n = self.deque_len(p, d)
        it = as_int(i)
        rs = []
        if not fc.spec:
            bad = z3.Or(it >= n, it < -n)
            if feasible(p, bad):
                q = p.fork()
                q.assume(bad)
                q.trace.append('deque index out of range: %s' % self.src(node))
                rs.append(self.raise_(q, 'IndexError', self.src(node)))
            p.assume(z3.Not(bad))
        h = z3.Select(harr(p, '$dqh'), d.t)
        idx = z3.If(it < 0, h + n + it, h + it) if const_int(it) is None or const_int(it) < 0 else h + it
        r = VRef(z3.Select(harr(p, '$dq'), d.t, idx))
        self.wf_value(p, r)
        rs.append(Res(p, r))
        return rs

    def dict_facts(self, p, d, k):
        """finite-map facts instantiated at a lookup site"""
        dom = z3.Select(harr(p, '$dom'), d, k)
        card = z3.Select(harr(p, '$card'), d)
        p.assume(card >= 0)
        p.assume(z3.Implies(dom, card >= 1))

    def dict_get(self, p, d, key, fc, node):
        if isinstance(key, VNone):
            k = z3.IntVal(-1)      # None is never an integer key: model as the impossible key -1
        else:
            k = self.key_term(key, p)
        dom = z3.Select(harr(p, '$dom'), d.t, k)
        val = z3.Select(harr(p, '$val'), d.t, k)
        if fc.spec:
            return [Res(p, VRef(val))]
        self.dict_facts(p, d.t, k)
        rs = []
        if feasible(p, z3.Not(dom)):
            q = p.fork()
            q.assume(z3.Not(dom))
            q.trace.append('KeyError: %s' % self.src(node))
            rs.append(self.raise_(q, 'KeyError', self.src(node)))
        p.assume(dom)
        r = VRef(val)
        self.wf_value(p, r)
        rs.append(Res(p, r))
        return rs

    def dict_set(self, p, d, key, v):
        k = self.key_term(key)
        if not isinstance(v, VRef):
            raise Unsupported('dict value must be a reference: %r' % (v,))
        self.dict_facts(p, d.t, k)
        dom = harr(p, '$dom')
        had = z3.Select(dom, d.t, k)
        card = harr(p, '$card')
        clock = harr(p, '$clock')
        ordr = harr(p, '$ord')
        now = z3.Select(clock, d.t)
        p.heap['$ord'] = z3.Store(ordr, d.t, k, z3.If(had, z3.Select(ordr, d.t, k), now))
        p.heap['$clock'] = z3.Store(clock, d.t, now + 1)
        p.heap['$card'] = z3.Store(card, d.t, z3.Select(card, d.t) + z3.If(had, 0, 1))
        p.heap['$dom'] = z3.Store(dom, d.t, k, z3.BoolVal(True))
        p.heap['$val'] = z3.Store(harr(p, '$val'), d.t, k, v.t)

    def dict_del(self, p, d, key, fc, node):
        k = self.key_term(key)
        self.dict_facts(p, d.t, k)
        dom = harr(p, '$dom')
        had = z3.Select(dom, d.t, k)
        rs = []
        if feasible(p, z3.Not(had)):
            q = p.fork()
            q.assume(z3.Not(had))
            q.trace.append('KeyError: %s' % self.src(node))
            rs.append(self.raise_(q, 'KeyError', self.src(node)))
        p.assume(had)
        card = harr(p, '$card')
        p.heap['$card'] = z3.Store(card, d.t, z3.Select(card, d.t) - 1)
        p.heap['$dom'] = z3.Store(dom, d.t, k, z3.BoolVal(False))
        rs.append(Res(p, None))
        return rs

    # ------------------------------------------------------------------ assignment
    def assign(self, target, v, p, fc):
        """returns list of Res (v unused); may raise edges"""
        if isinstance(target, ast.Name):
            p.env[target.id] = v
            return [Res(p)]
        if isinstance(target, (ast.Tuple, ast.List)):
            if isinstance(v, VPair):
                v = self.elem_unpack(v)
            if not isinstance(v, VTuple):
                raise Unsupported('unpack of %r' % (v,))
            if len(v.items) != len(target.elts):
                return [self.raise_(p, 'ValueError', 'unpack')]
            rs = [Res(p)]
            for t, it in zip(target.elts, v.items):
                nxt = []
                for r in rs:
                    if r.exc is not None:
                        nxt.append(r)
                    else:
                        nxt.extend(self.assign(t, it, r.p, fc))
                rs = nxt
            return rs
        if isinstance(target, ast.Attribute):
            def f(q, obj):
                out = []
                for (q2, o) in self.cases(q, obj):
                    if isinstance(o, VNone) or o is None:
                        out.append(self.raise_(q2, 'AttributeError', self.src(target)))
                        continue
                    if not isinstance(o, VRef):
                        raise Unsupported('attribute store on %r' % (o,))
                    self.store_attr(q2, o, target.attr, v)
                    out.append(Res(q2))
                return out
            return self.bind(self.ev(target.value, p, fc), f)
        if isinstance(target, ast.Subscript):
            if isinstance(target.slice, ast.Slice):
                raise Unsupported('slice assignment')

            def f(q, vs):
                out = []
                for (q2, b) in self.cases(q, vs[0]):
                    for (q3, i) in self.cases(q2, vs[1]):
                        out.extend(self.store_index(q3, target, b, i, v, fc))
                return out
            return self.bind(self.ev_many([target.value, target.slice], p, fc), f)
        raise Unsupported('assignment target %s' % type(target).__name__)

    def elem_unpack(self, v):
        if v.pk == 'pair_si':
            return VTuple([VStr(PairSI.si_s(v.t)), VInt(PairSI.si_i(v.t))])
        return VTuple([VInt(PairIB.ib_i(v.t)), VBool(PairIB.ib_b(v.t))])

    def store_attr(self, p, o, attr, v):
        if isinstance(v, VList) and self.specs is not None and 'EMPTY_LIST_KINDS' in self.specs.consts and self._is_empty(v.t):
            ek = self.specs.consts['EMPTY_LIST_KINDS'][1].get((o.cls, attr))
            if ek is not None and ek != v.ek:
                v = VList(z3.Empty(z3.SeqSort(KSORT[ek])), ek)
        if isinstance(v, VConstList):
            raise Unsupported('storing a list of non-storable element shape into .%s' % attr)
        self.policy_escape(p, v, 'stored into .' + attr)
        if isinstance(o, VRef):
            self.policy_object(p, o, 'write .' + attr)
        store_value(p, attr, o.t, v)

    def store_index(self, p, target, b, i, v, fc):
        node = target
        if isinstance(b, VBytes):
            # bytearray item assignment: value must be an int in 0..255
            rs = []
            outs = []
            for (q, val) in self.cases(p, v):
                if not is_num(val):
                    rs.append(self.raise_(q, 'TypeError', self.src(node)))
                    continue
                x = as_int(val)
                it = as_int(i)
                L = z3.Length(b.t)
                badi = z3.Or(it >= L, it < -L)
                if feasible(q, badi):
                    q2 = q.fork()
                    q2.assume(badi)
                    rs.append(self.raise_(q2, 'IndexError', self.src(node)))
                q.assume(z3.Not(badi))
                badv = z3.Or(x < 0, x > 255)
                if feasible(q, badv):
                    q2 = q.fork()
                    q2.assume(badv)
                    q2.trace.append('byte out of range: %s' % self.src(node))
                    rs.append(self.raise_(q2, 'ValueError', 'byte must be in range(0, 256): ' + self.src(node)))
                q.assume(z3.Not(badv))
                idx = it if entails(q, it >= 0) else z3.If(it < 0, it + L, it)
                nt = z3.Concat(z3.Extract(b.t, 0, idx), z3.Unit(x), z3.Extract(b.t, idx + 1, L - idx - 1))
                rs.extend(self.assign(target.value, VBytes(nt, True), q, fc))
            return rs
        if isinstance(b, VRef):
            out = []
            self.policy_key(p, b, i, node)
            for (q, cls) in self.classof(p, b):
                if cls != 'dict':
                    raise Unsupported('item store on object of class ' + cls)
                for (q2, vv) in self.cases(q, v):
                    self.policy_escape(q2, vv, 'stored as a dict value')
                    self.dict_set(q2, VRef(b.t, 'dict'), i, vv)
                    out.append(Res(q2))
            return out
        if isinstance(b, VNone) or b is None:
            return [self.raise_(p, 'TypeError', self.src(node))]
        raise Unsupported('item store on %r' % (b,))
