"""Symbolic executor over the real Python AST: expressions, statements, calls, contracts."""
import ast, z3
from .values import *
from .state import *
from . import front


class Res:
    __slots__ = ('p', 'v', 'exc')

    def __init__(self, p, v=None, exc=None):
        self.p = p
        self.v = v
        self.exc = exc


class Obligation:
    def __init__(self, name, kind, assumptions, goal, trace, unit, inputs=None, props=()):
        self.name = name
        self.kind = kind
        self.assumptions = assumptions
        self.goal = goal
        self.trace = trace
        self.unit = unit
        self.inputs = inputs or {}
        self.props = list(props)
        self.result = None
        self.backend = None
        self.time = 0.0
        self.model = None
        self.detail = ''


class FnCtx:
    """static context of the function being executed"""
    def __init__(self, module, qname, node=None, cls=None, locals_=None, spec=False):
        self.module = module
        self.qname = qname
        self.node = node
        self.cls = cls
        self.locals = locals_ if locals_ is not None else set()
        self.spec = spec
        self.old = None        # (env, heap) snapshot for old() in spec expressions
        self.result = None
        self.loop_ord = 0


def is_num(v):
    return isinstance(v, (VInt, VBool, VReal))


def as_int(v):
    if isinstance(v, VInt):
        return v.t
    if isinstance(v, VBool):
        return z3.If(v.t, z3.IntVal(1), z3.IntVal(0))
    raise Unsupported('as_int %r' % (v,))


def as_num(v):
    if isinstance(v, VReal):
        return v.t
    return as_int(v)


def simp(t):
    """simplify, but never let z3's rewriter introduce its internal seq.nth_i / seq.nth_u (not exportable)"""
    r = z3.simplify(t)
    if 'seq.nth_' in r.sexpr():
        return t
    return r


def const_int(t):
    t = z3.simplify(t)
    if z3.is_int_value(t):
        return t.as_long()
    return None


def bit_and_const(x, c):
    """x & c for a non-negative Python constant c, exact for every integer x (two's complement)"""
    if c == 0:
        return z3.IntVal(0)
    if c & (c + 1) == 0:          # 2^k - 1
        return x % (c + 1)
    # contiguous run of ones: ((x >> lo) mod 2^w) << lo
    lo = (c & -c).bit_length() - 1
    w = c >> lo
    if w & (w + 1) == 0:
        return ((x / (1 << lo)) % (w + 1)) * (1 << lo)
    out = z3.IntVal(0)
    i = 0
    while (1 << i) <= c:
        if c & (1 << i):
            out = out + ((x / (1 << i)) % 2) * (1 << i)
        i += 1
    return out


def cond_const(t):
    """(c, k) if t is If(c, 1, 0) * k or If(c, k, 0) with constant k >= 0"""
    if z3.is_app(t) and t.decl().kind() == z3.Z3_OP_ITE:
        a, b = const_int(t.arg(1)), const_int(t.arg(2))
        if a is not None and b == 0 and a >= 0:
            return t.arg(0), a
    if z3.is_app(t) and t.decl().kind() == z3.Z3_OP_MUL and t.num_args() == 2:
        for (u, v) in ((t.arg(0), t.arg(1)), (t.arg(1), t.arg(0))):
            k = const_int(v)
            cc = cond_const(u) if k is not None and k >= 0 else None
            if cc is not None:
                return cc[0], cc[1] * k
    return None


BOR = z3.Function('bor', I, I, I)
BOR_W = 8


def bit_or(p, a, b):
    """a | b.  Exact when 0 <= a,b < 2^8 (bit decomposition); otherwise an uninterpreted value (nothing
    can be proved from it, so an out-of-range use makes the dependent obligation undecided, never wrong)."""
    ca, cb = const_int(a), const_int(b)
    if ca is not None and cb is not None:
        return z3.IntVal(ca | cb)
    if ca is not None and cb is None:
        a, b, ca, cb = b, a, cb, ca
    if cb is not None and cb >= 0:
        # x | c for a constant c >= 0, exact for every integer x: each bit of c that is clear in x is added
        out = a
        i = 0
        while (1 << i) <= cb:
            if cb & (1 << i):
                out = out + (1 - (a / (1 << i)) % 2) * (1 << i)
            i += 1
        return out
    for (x, y) in ((a, b), (b, a)):
        cc = cond_const(y)
        if cc is not None:
            # x | (c << k) with a boolean c: either x or x | 2^k
            cond, k = cc
            return z3.If(cond, bit_or(p, x, z3.IntVal(k)), x)
    r = BOR(a, b)
    bits = z3.IntVal(0)
    for i in range(BOR_W):
        ba = (a / (1 << i)) % 2
        bb = (b / (1 << i)) % 2
        bits = bits + z3.If(z3.Or(ba == 1, bb == 1), 1, 0) * (1 << i)
    p.assume(z3.Implies(z3.And(a >= 0, a < (1 << BOR_W), b >= 0, b < (1 << BOR_W)), r == bits))
    return r


class Engine:
    MAX_PATHS = 4000

    def __init__(self, repo, specs=None, unit='?'):
        self.repo = repo
        self.specs = specs
        self.unit = unit
        self.obls = []
        self.props = []
        self.inlined = set()
        self.used_contracts = set()
        self.notes = []
        self.depth = 0
        self.inputs = {}
        from . import lib
        self.lib = lib
        self.strings = lib.StrTheory()
        for m in repo.modules.values():
            for c in m.classes.values():
                pass
        self._exc_bases = dict(EXC_BASES)
        for c in repo.classes.values():
            short = c.qname.split('.')[-1]
            for b in c.bases:
                bn = b.split('.')[-1].replace('ext:', '')
                if bn in self._exc_bases or b in repo.classes and self.is_exc_class(b):
                    self._exc_bases[short] = bn

    # ------------------------------------------------------------------ exceptions
    def is_exc_class(self, q):
        short = q.split('.')[-1]
        return short in self._exc_bases

    def exc_subclass(self, cls, base):
        cur = cls
        while cur is not None:
            if cur == base:
                return True
            cur = self._exc_bases.get(cur)
        return False

    # ------------------------------------------------------------------ obligations
    def oblige(self, p, name, goal, kind='assert', assume_after=True):
        if isinstance(goal, bool):
            goal = z3.BoolVal(goal)
        if kind in ('ensures', 'invariant', 'precondition', 'hint') and z3.is_and(goal) and assume_after:
            # one obligation per conjunct: smaller queries, and a failure names the conjunct
            parts = []

            def flat(t):
                if z3.is_and(t):
                    for c in t.children():
                        flat(c)
                else:
                    parts.append(t)
            flat(goal)
            if 1 < len(parts) <= 400:
                last = None
                for i, c in enumerate(parts):
                    last = self.oblige(p, '%s [conjunct %d/%d]' % (name, i + 1, len(parts)), c, kind, True)
                return last
        o = Obligation(name, kind, list(p.pc), goal, list(p.trace), self.unit, dict(self.inputs), self.props)
        self.obls.append(o)
        if assume_after:
            p.assume(goal)
        return o

    # ------------------------------------------------------------------ access policy (C19)
    # specs may declare ACCESS_POLICY = {'class': C, 'tables': [...], 'owner': 'factory', 'key': 'addr'}: in every unit
    # whose target is a method of C (or a closure inside one), a value read from self.<owner>.<table> is flagged; a
    # flagged table may only be subscripted (load, store, del, .get) with the key self.<key>; any other use is refused.
    def policy_conf(self):
        if self.specs is None or 'ACCESS_POLICY' not in self.specs.consts:
            return None
        return self.specs.consts['ACCESS_POLICY'][1]

    def policy_on(self):
        return getattr(self, 'policy_self', None) is not None

    def policy_flag(self, u, attr):
        if self.policy_on() and attr in self.policy_conf()['tables']:
            u.outer = attr
        return u

    def policy_key(self, p, b, key, node):
        tbl = getattr(b, 'outer', None)
        if tbl is None or not self.policy_on():
            return
        own = self.key_term(load_value(p, self.policy_conf()['key'], self.policy_self.t), p)
        k = z3.IntVal(-1) if isinstance(key, VNone) else self.key_term(key, p)
        self.oblige(p, 'policy/table %s is accessed at [self.%s] only: %s' % (tbl, self.policy_conf()['key'], self.src(node)[:60]),
                    k == own, 'policy')

    def policy_object(self, p, r, what, node=None):
        """C19, object level: protocol code reads and writes request objects (the classes ACCESS_POLICY['tagged']) only
        if they are untagged (fresh) or tagged with self.<key>; checked once per object term and path"""
        if not self.policy_on():
            return
        conf = self.policy_conf()
        classes = conf.get('tagged')
        if not classes:
            return
        if r.cls is not None and r.cls not in classes:
            return
        if self.policy_self.t.eq(r.t):
            return
        key = 'nf:%d' % r.t.get_id()
        if key in p.ghost:
            return
        p.ghost = dict(p.ghost)
        p.ghost[key] = r.t          # keeps the term alive
        tagv = load_value(p, conf['tag'], r.t)
        own = load_value(p, conf['key'], self.policy_self.t)
        ok = z3.Or(z3.Not(tagv.is_('obj')), tagv.t == own.t)
        if r.cls is None:
            cls = z3.Select(harr(p, '$cls'), r.t)
            ok = z3.Implies(z3.Or(*[cls == cls_code(c) for c in classes]), ok)
        self.oblige(p, 'policy/request objects of another address are never touched: %s %s' % (what, (self.src(node)[:50] if node is not None else '')),
                    ok, 'policy')

    def policy_escape(self, p, v, what):
        tbl = getattr(v, 'outer', None)
        if tbl is None or not self.policy_on():
            return
        self.oblige(p, 'policy/table %s is used other than by a subscript [self.%s]: %s' % (tbl, self.policy_conf()['key'], what[:60]),
                    z3.BoolVal(False), 'policy')

    # ------------------------------------------------------------------ helpers
    def raise_(self, p, cls, origin, args=()):
        return Res(p, exc=VExc(cls, args, origin))

    def bind(self, rs, f):
        out = []
        for r in rs:
            if r.exc is not None:
                out.append(r)
            else:
                out.extend(f(r.p, r.v))
        return out

    def ev_many(self, exprs, p, fc):
        """evaluate expressions left to right; returns list of Res whose v is a list of values"""
        rs = [Res(p, [])]
        for e in exprs:
            nxt = []
            for r in rs:
                if r.exc is not None:
                    nxt.append(r)
                    continue
                for r2 in self.ev(e, r.p, fc):
                    if r2.exc is not None:
                        nxt.append(r2)
                    else:
                        nxt.append(Res(r2.p, r.v + [r2.v]))
            rs = nxt
        return rs

    def src(self, node):
        try:
            return ast.unparse(node)
        except Exception:
            return '?'

    # ------------------------------------------------------------------ unions
    def cases(self, p, v):
        """resolve a VUnion into concrete-kind alternatives (forking)"""
        if not isinstance(v, VUnion):
            return [(p, v)]
        t = simp(v.t)
        ck = 'kinds:%d' % t.get_id()
        p.ghost.setdefault('keep', []) if False else None
        kk = self.known_kind(p, v.t, t)
        if z3.is_app(t) and t.decl().name().startswith('v_'):
            kinds = [t.decl().name()[2:]]
        elif kk is not None:
            kinds = [kk]
        elif ck in p.ghost:
            # resolved earlier on this path under a weaker path condition: still a sound over-approximation
            kinds = [k for k in p.ghost[ck] if len(p.ghost[ck]) == 1 or feasible(p, val_is(v.t, k))]
        else:
            s = z3.Solver()
            s.set('timeout', 500)
            for a in light_pc(p):
                s.add(a)
            kinds = []
            while True:
                r = s.check()
                SolverStats.calls += 1
                if r == z3.unsat:
                    break
                if r == z3.unknown:
                    # model finding gave up (quantified invariants): refute kinds one by one instead
                    kinds = []
                    for k in KINDS:
                        rr, _ = check_sat(light_pc(p) + [val_is(v.t, k)], 700)
                        if rr != 'unsat':
                            kinds.append(k)
                    if len(kinds) > 6:
                        raise Unsupported('kind of %s undecided by the solver (%d kinds not refuted)' % (v.desc, len(kinds)))
                    break
                m = s.model()
                tv = m.eval(v.t, model_completion=True)
                k = tv.decl().name()[2:]
                kinds.append(k)
                s.add(z3.Not(val_is(v.t, k)))
                if len(kinds) > 6:
                    raise Unsupported('field %s: too many possible kinds %s (contract lacks a type fact)' % (v.desc, kinds))
        p.ghost = dict(p.ghost)
        p.ghost[ck] = list(kinds)
        p.ghost[ck + '#term'] = t       # keeps the term alive: its id cannot be recycled
        out = []
        single = len(kinds) == 1
        for k in kinds:
            q = p if single else p.fork()
            q.assume(v.is_(k))
            if not single:
                q.trace.append('%s is %s' % (v.desc, k))
            if k == 'unset':
                out.append((q, None))
            elif k == 'none':
                out.append((q, VNone()))
            else:
                val = mk_value(k, simp(v.get(k)))
                self.wf_value(q, val)
                if getattr(v, 'outer', None) is not None:
                    val.outer = v.outer
                out.append((q, val))
        return out

    def known_kind(self, p, t0, t1):
        """kind of a Val term if a tester atom about it is literally among the path's assumptions"""
        for a in reversed(p.pc):
            stack = [a]
            while stack:
                x = stack.pop()
                if not z3.is_app(x):
                    continue
                if z3.is_and(x):
                    stack.extend(x.children())
                    continue
                if x.decl().kind() == z3.Z3_OP_DT_IS and x.num_args() == 1:
                    arg = x.arg(0)
                    if arg.eq(t0) or arg.eq(t1):
                        return x.decl().params()[0].name()[2:] if x.decl().params() else None
        return None

    def wf_value(self, p, val):
        """CPython guarantees instantiated at read sites: references are live objects"""
        if isinstance(val, VRef) and not z3.is_int_value(val.t):
            p.assume(z3.And(val.t > 0, val.t < next_ref(p)))

    def classof(self, p, ref):
        """list of (path, class name) for a reference"""
        if ref.cls is not None:
            return [(p, ref.cls)]
        ct = z3.Select(harr(p, '$cls'), ref.t)
        s = z3.Solver()
        s.set('timeout', 500)
        for a in light_pc(p):
            s.add(a)
        out = []
        n = 0
        while True:
            r = s.check()
            SolverStats.calls += 1
            if r == z3.unsat:
                break
            if r == z3.unknown:
                # model finding gave up (quantified invariants): refute the known classes one by one
                from .state import _cls_codes
                out = []
                for name, c in list(_cls_codes.items()):
                    rr, _ = check_sat(light_pc(p) + [ct == c], 1500)
                    if rr != 'unsat':
                        out.append((c, name))
                if len(out) > 6 or not out:
                    raise Unsupported('class of %s undecided by the solver' % ref.t)
                break
            c = s.model().eval(ct, model_completion=True).as_long()
            name = cls_name(c)
            if name is None:
                raise Unsupported('class of %s unconstrained' % ref.t)
            out.append((c, name))
            s.add(ct != c)
            n += 1
            if n > 8:
                raise Unsupported('class of %s: too many candidates' % ref.t)
        res = []
        for c, name in out:
            q = p if len(out) == 1 else p.fork()
            q.assume(ct == c)
            if len(out) > 1:
                q.trace.append('class(%s)=%s' % (ref.t, name))
            res.append((q, name))
        if len(out) == 1:
            ref.cls = out[0][1]       # remember: the class of an object never changes
        return res

    # ------------------------------------------------------------------ truthiness / equality
    def truth_term(self, p, v):
        """Bool term (or python bool) for the truth value of a concrete-kind value"""
        if isinstance(v, VNone):
            return z3.BoolVal(False)
        if isinstance(v, VBool):
            return v.t
        if isinstance(v, VInt):
            return v.t != 0
        if isinstance(v, VReal):
            return v.t != 0
        if isinstance(v, (VBytes, VList)):
            return z3.Length(v.t) > 0
        if isinstance(v, VStr):
            if v.const is not None:
                return z3.BoolVal(len(v.const) > 0)
            return self.strings.strlen(p, v.t) > 0
        if isinstance(v, VTuple):
            return z3.BoolVal(len(v.items) > 0)
        if isinstance(v, VRef):
            if v.cls in ('dict',):
                return z3.Select(harr(p, '$card'), v.t) > 0
            if v.cls == 'deque':
                return self.deque_len(p, v) > 0
            return z3.BoolVal(True)
        if isinstance(v, (VFunc, VClass, VObj, VVer, VExc, VExt, VOpaque)):
            return z3.BoolVal(True)
        if isinstance(v, VConstDict):
            return z3.BoolVal(len(v.d) > 0)
        if isinstance(v, VUnion):
            # spec mode: none/unset false, ints by value, everything else by the generic rule "true"
            return z3.And(z3.Not(v.is_('none')), z3.Not(v.is_('unset')),
                          z3.Implies(v.is_('int'), v.get('int') != 0),
                          z3.Implies(v.is_('bool'), v.get('bool')))
        raise Unsupported('truth of %r' % (v,))

    def branch(self, p, v, what=''):
        """fork on the truth of v: returns [(path, pybool)]"""
        out = []
        for q, c in self.cases(p, v):
            if c is None:
                raise Unsupported('truth of unset attribute')
            t = simp(self.truth_term(q, c))
            if z3.is_true(t):
                out.append((q, True))
            elif z3.is_false(t):
                out.append((q, False))
            else:
                ft = feasible(q, t)
                ff = feasible(q, z3.Not(t))
                if ft and ff and len(light_pc(q)) != len(q.pc):
                    ft = feasible_full(q, t)
                    ff = feasible_full(q, z3.Not(t)) if ft else True
                if ft and ff:
                    q2 = q.fork()
                    q.assume(t)
                    q.trace.append('%s' % what)
                    q2.assume(z3.Not(t))
                    q2.trace.append('not(%s)' % what)
                    out.append((q, True))
                    out.append((q2, False))
                elif ft:
                    q.assume(t)
                    out.append((q, True))
                elif ff:
                    q.assume(z3.Not(t))
                    out.append((q, False))
        return out

    def veq(self, p, a, b, strict=False):
        """Bool term for a == b (Python ==), term level, no forking"""
        if isinstance(a, VUnion) and isinstance(b, VUnion):
            return a.t == b.t
        if isinstance(b, VUnion):
            a, b = b, a
        if isinstance(a, VUnion):
            if isinstance(b, VNone):
                return a.is_('none')
            if isinstance(b, VTuple):
                k, t = storable(b)
                return z3.And(a.is_(k), a.get(k) == t)
            if strict and isinstance(b, (VBool, VInt)):
                # specification equality is kind-strict: an int field equals an int, a bool field a bool
                k = b.kind
                return z3.And(a.is_(k), a.get(k) == b.t)
            if isinstance(b, VBool):
                return z3.Or(z3.And(a.is_('bool'), a.get('bool') == b.t),
                             z3.And(a.is_('int'), a.get('int') == as_int(b)))
            if isinstance(b, VInt):
                return z3.Or(z3.And(a.is_('int'), a.get('int') == b.t),
                             z3.And(a.is_('bool'), z3.If(a.get('bool'), 1, 0) == b.t))
            k = b.kind
            if k in KSORT:
                kk, tt = storable(b)
                return z3.And(a.is_(kk), a.get(kk) == tt)
            raise Unsupported('veq union vs %r' % (b,))
        if isinstance(a, VNone) or isinstance(b, VNone):
            return z3.BoolVal(isinstance(a, VNone) and isinstance(b, VNone))
        if is_num(a) and is_num(b):
            if isinstance(a, VBool) and isinstance(b, VBool):
                return a.t == b.t
            return as_num(a) == as_num(b)
        if isinstance(a, VTuple) and isinstance(b, VTuple):
            if len(a.items) != len(b.items):
                return z3.BoolVal(False)
            return z3.And(*[self.veq(p, x, y) for x, y in zip(a.items, b.items)]) if a.items else z3.BoolVal(True)
        if isinstance(a, VTuple) and isinstance(b, VPair):
            a = VPair(storable(a)[1], storable(a)[0])
        if isinstance(b, VTuple) and isinstance(a, VPair):
            b = VPair(storable(b)[1], storable(b)[0])
        if type(a) is type(b) and hasattr(a, 't') and not isinstance(a, VFunc):
            if isinstance(a, VList) and a.ek != b.ek:
                return z3.And(z3.Length(a.t) == 0, z3.Length(b.t) == 0)
            return a.t == b.t
        if isinstance(a, VClass) and isinstance(b, VClass):
            return z3.BoolVal(a.name == b.name)
        if isinstance(a, VList) and isinstance(b, VConstList) or isinstance(b, VList) and isinstance(a, VConstList):
            raise Unsupported('list == const list')
        if hasattr(a, 't') and hasattr(b, 't') and a.kind != b.kind:
            # values of different Python types compare unequal (int/bool handled above)
            return z3.BoolVal(False)
        if isinstance(a, VFunc) and isinstance(b, VFunc):
            if a.t is not None and b.t is not None:
                return a.t == b.t
            return z3.BoolVal(a.name == b.name)
        return z3.BoolVal(False) if a.kind != b.kind else self._unsup('veq %r %r' % (a, b))

    def _unsup(self, msg):
        raise Unsupported(msg)

    def deque_len(self, p, v):
        h = z3.Select(harr(p, '$dqh'), v.t)
        t = z3.Select(harr(p, '$dqt'), v.t)
        p.assume(t >= h)
        return t - h

    # ================================================================== expressions
    def ev(self, node, p, fc):
        m = getattr(self, 'ev_' + type(node).__name__, None)
        if m is None:
            raise Unsupported('expression %s in %s' % (type(node).__name__, fc.qname))
        return m(node, p, fc)

    def ev_Constant(self, node, p, fc):
        return [Res(p, self.const_value(p, node.value))]

    def const_value(self, p, c):
        if c is None:
            return VNone()
        if isinstance(c, bool):
            return VBool(c)
        if isinstance(c, int):
            return VInt(c)
        if isinstance(c, float):
            return VReal(z3.RealVal(repr(c)))
        if isinstance(c, str):
            return self.strings.const(p, c)
        if isinstance(c, bytes):
            return VBytes(self.lib.seq_of(list(c)))
        raise Unsupported('constant %r' % (c,))

    def ev_Name(self, node, p, fc):
        name = node.id
        if name in p.env:
            v = p.env[name]
            if v is None:
                return [self.raise_(p, 'UnboundLocalError', name)]
            return [Res(p, v)]
        if fc.spec:
            v = self.spec_name(name, p, fc)
            if v is not None:
                return [Res(p, v)]
        if name in fc.locals:
            return [self.raise_(p, 'UnboundLocalError', name)]
        v = self.global_name(name, p, fc)
        if v is None:
            return [self.raise_(p, 'NameError', name)]
        return [Res(p, v)]

    def spec_name(self, name, p, fc):
        if name == 'result':
            return fc.result
        return None

    def global_name(self, name, p, fc):
        module = fc.module
        if module is not None:
            q = self.repo.resolve_name(module, name)
            if q is not None:
                return self.entity(q, p, module)
        return self.lib.builtin_name(self, name)

    def entity(self, q, p, module=None):
        repo = self.repo
        if q.startswith('ext:'):
            return self.lib.ext_entity(self, q[4:])
        if q.startswith('mod:'):
            return VExt(q[4:])
        if q in repo.classes:
            return VClass(q, repo_cls=repo.classes[q], exc=self.is_exc_class(q))
        # function or global
        mname, _, attr = q.rpartition('.')
        m = repo.modules.get(mname)
        if m is None:
            return None
        if attr in m.functions:
            return VFunc('function', q, node=m.functions[attr], module=m)
        if attr in m.globals:
            return self.global_const(m, attr, p)
        return None

    def global_const(self, m, attr, p):
        if m.name == 'mqtt' and attr == 'PY2':
            return VBool(False)
        if m.name == 'mqtt' and attr == 'v31':
            return VVer(VER_V31)
        if m.name == 'mqtt' and attr == 'v311':
            return VVer(VER_V311)
        if attr == 'log':
            return VExt('logger')
        node = m.globals[attr]
        return self.const_expr(node, m, p)

    def const_expr(self, node, module, p):
        """evaluate a module-level / class-level constant expression"""
        if isinstance(node, ast.Constant):
            return self.const_value(p, node.value)
        if isinstance(node, ast.List):
            return VConstList([self.const_expr(e, module, p) for e in node.elts])
        if isinstance(node, ast.Dict):
            d = {}
            for k, v in zip(node.keys, node.values):
                d[ast.literal_eval(k)] = self.const_expr(v, module, p)
            return VConstDict(d)
        if isinstance(node, (ast.BinOp, ast.UnaryOp)):
            return self.const_value(p, eval(compile(ast.Expression(node), '<const>', 'eval'), {}))
        if isinstance(node, ast.Attribute) or isinstance(node, ast.Name):
            fc = FnCtx(module, module.name)
            rs = self.ev(node, p, fc)
            return rs[0].v
        raise Unsupported('constant expression %s' % ast.dump(node))

    def version_table(self, which):
        """literal dict v31 / v311 of mqtt/__init__.py"""
        m = self.repo.modules['mqtt']
        return ast.literal_eval(m.globals[which])

    def ev_Tuple(self, node, p, fc):
        def mk(q, vs):
            for v in vs:
                self.policy_escape(q, v, 'put into a tuple')
            return [Res(q, VTuple(vs))]
        return self.bind(self.ev_many(node.elts, p, fc), mk)

    def ev_List(self, node, p, fc):
        def mk(q, vs):
            if not vs:
                return [Res(q, VList(z3.Empty(z3.SeqSort(I)), 'int'))]
            vs2 = []
            for v in vs:
                self.policy_escape(q, v, 'put into a list')
                if isinstance(v, VUnion):
                    raise Unsupported('list literal of unresolved union')
                vs2.append(v)
            k0, _ = storable(vs2[0])
            terms = [z3.Unit(storable(v)[1]) for v in vs2]
            t = terms[0] if len(terms) == 1 else z3.Concat(*terms)
            return [Res(q, VList(t, k0))]
        if True:
            # elements (and tuple components) that are fields (unions) must be resolved first
            def mk2(q, vs):
                outs = [(q, [])]
                for v in vs:
                    nxt = []
                    for (qq, acc) in outs:
                        if isinstance(v, VTuple):
                            comps = [(qq, [])]
                            for it in v.items:
                                c2 = []
                                for (q3, a3) in comps:
                                    for (q4, cv) in self.cases(q3, it):
                                        c2.append((q4, a3 + [cv]))
                                comps = c2
                            for (q3, a3) in comps:
                                nxt.append((q3, acc + [VTuple(a3)]))
                        else:
                            for (q4, cv) in self.cases(qq, v):
                                nxt.append((q4, acc + [cv]))
                    outs = nxt
                res = []
                for (qq, acc) in outs:
                    try:
                        res.extend(mk(qq, acc))
                    except Unsupported:
                        # list of tuples of non-storable shape: keep as opaque python-level list
                        res.append(Res(qq, VConstList(acc)))
                return res
            return self.bind(self.ev_many(node.elts, p, fc), mk2)
        return self.bind(self.ev_many(node.elts, p, fc), mk)

    def ev_IfExp(self, node, p, fc):
        if fc.spec:
            def f(q, c):
                ct = self.truth_term(q, c)
                a = self.ev(node.body, q, fc)[0].v
                b = self.ev(node.orelse, q, fc)[0].v
                return [Res(q, self.ite_value(q, ct, a, b))]
            return self.bind(self.ev(node.test, p, fc), f)

        def f(q, c):
            out = []
            for (q2, tv) in self.branch(q, c, self.src(node.test)):
                out.extend(self.ev(node.body if tv else node.orelse, q2, fc))
            return out
        return self.bind(self.ev(node.test, p, fc), f)

    def ite_value(self, p, c, a, b):
        c = simp(c) if not isinstance(c, bool) else z3.BoolVal(c)
        if z3.is_true(c):
            return a
        if z3.is_false(c):
            return b
        if is_num(a) and is_num(b):
            if isinstance(a, VBool) and isinstance(b, VBool):
                return VBool(z3.If(c, a.t, b.t))
            if isinstance(a, VReal) or isinstance(b, VReal):
                return VReal(z3.If(c, z3.ToReal(as_num(a)) if not isinstance(a, VReal) else a.t,
                                   z3.ToReal(as_num(b)) if not isinstance(b, VReal) else b.t))
            return VInt(z3.If(c, as_int(a), as_int(b)))
        if isinstance(a, VTuple) and isinstance(b, VTuple) and len(a.items) == len(b.items):
            return VTuple([self.ite_value(p, c, x, y) for x, y in zip(a.items, b.items)])
        if type(a) is type(b) and hasattr(a, 't'):
            if isinstance(a, VList):
                return VList(z3.If(c, a.t, b.t), a.ek)
            if isinstance(a, VRef):
                return VRef(z3.If(c, a.t, b.t), a.cls if a.cls == b.cls else None)
            if isinstance(a, VPair):
                return VPair(z3.If(c, a.t, b.t), a.pk)
            return type(a)(z3.If(c, a.t, b.t))
        # general: build a union
        return VUnion(z3.If(c, to_val(a), to_val(b)), 'ite')

    def ev_BoolOp(self, node, p, fc):
        is_and = isinstance(node.op, ast.And)
        if fc.spec:
            terms = []
            for e in node.values:
                r = self.ev(e, p, fc)[0]
                terms.append(self.truth_term(p, r.v))
            return [Res(p, VBool(z3.And(*terms) if is_and else z3.Or(*terms)))]

        def go(i, q):
            def f(q2, v):
                if i == len(node.values) - 1:
                    return [Res(q2, v)]
                out = []
                for (q3, tv) in self.branch(q2, v, self.src(node.values[i])):
                    if tv == is_and:
                        out.extend(go(i + 1, q3))
                    else:
                        out.append(Res(q3, v))
                return out
            return self.bind(self.ev(node.values[i], q, fc), f)
        return go(0, p)

    def ev_UnaryOp(self, node, p, fc):
        def f(q, v):
            if isinstance(node.op, ast.Not):
                if fc.spec:
                    return [Res(q, VBool(z3.Not(self.truth_term(q, v))))]
                out = []
                for (q2, c) in self.cases(q, v):
                    out.append(Res(q2, VBool(z3.Not(self.truth_term(q2, c)))))
                return out
            if isinstance(node.op, ast.USub):
                if isinstance(v, VReal):
                    return [Res(q, VReal(-v.t))]
                return [Res(q, VInt(-as_int(v)))]
            raise Unsupported('unary op')
        return self.bind(self.ev(node.operand, p, fc), f)

    # ------------------------------------------------------------------ arithmetic
    def ev_BinOp(self, node, p, fc):
        def f(q, vs):
            out = []
            for (q1, a) in (self.cases(q, vs[0]) if not fc.spec else [(q, self.spec_coerce(vs[0]))]):
                for (q2, b) in (self.cases(q1, vs[1]) if not fc.spec else [(q1, self.spec_coerce(vs[1]))]):
                    out.extend(self.binop(node.op, a, b, q2, fc, node))
            return out
        return self.bind(self.ev_many([node.left, node.right], p, fc), f)

    def spec_coerce(self, v):
        if isinstance(v, VUnion):
            return VInt(v.get('int'))
        return v

    def binop(self, op, a, b, p, fc, node):
        if a is None or b is None:
            return [self.raise_(p, 'AttributeError', self.src(node))]
        if isinstance(op, ast.Mod) and isinstance(a, VStr):
            # "fmt" % x : result is an opaque string; %x / %d with a non-number raises TypeError
            if a.const is not None and ('%x' in a.const or '%d' in a.const):
                items = b.items if isinstance(b, VTuple) else [b]
                if any(not is_num(x) for x in items):
                    return [self.raise_(p, 'TypeError', self.src(node))]
            if a.const is not None and isinstance(b, VStr) and b.const is not None and a.const.count('%') == 1 and '%s' in a.const:
                return [Res(p, self.strings.const(p, a.const % b.const))]
            return [Res(p, VOpaque('formatted string'))]
        if isinstance(op, ast.Add):
            if isinstance(a, VBytes) and isinstance(b, VBytes):
                return [Res(p, VBytes(z3.Concat(a.t, b.t), a.code and b.code))]
            if isinstance(a, VList) and isinstance(b, VList):
                if a.ek != b.ek:
                    if z3.is_app(a.t) and z3.simplify(z3.Length(a.t) == 0) is True:
                        return [Res(p, b)]
                    # empty list literal defaults to int elements
                    if self._is_empty(a.t):
                        return [Res(p, b)]
                    if self._is_empty(b.t):
                        return [Res(p, a)]
                    raise Unsupported('list concat of different element kinds')
                return [Res(p, VList(z3.Concat(a.t, b.t), a.ek))]
        if isinstance(a, VNone) or isinstance(b, VNone) or not (is_num(a) and is_num(b)):
            if fc.spec:
                raise Unsupported('spec arithmetic on %r, %r (%s)' % (a, b, self.src(node)))
            if isinstance(a, (VNone, VStr, VBytes, VRef, VTuple, VList)) or isinstance(b, (VNone, VStr, VBytes, VRef, VTuple, VList)):
                return [self.raise_(p, 'TypeError', self.src(node))]
            raise Unsupported('binop on %r, %r' % (a, b))
        real = isinstance(a, VReal) or isinstance(b, VReal)
        if isinstance(op, ast.Div):
            x = as_num(a)
            y = as_num(b)
            x = x if isinstance(a, VReal) else z3.ToReal(x)
            y = y if isinstance(b, VReal) else z3.ToReal(y)
            rs = []
            if not fc.spec:
                z = (y == 0)
                if feasible(p, z):
                    q = p.fork()
                    q.assume(z)
                    rs.append(self.raise_(q, 'ZeroDivisionError', self.src(node)))
                p.assume(z3.Not(z))
            rs.append(Res(p, VReal(x / y)))
            return rs
        if real:
            x = as_num(a) if isinstance(a, VReal) else z3.ToReal(as_num(a))
            y = as_num(b) if isinstance(b, VReal) else z3.ToReal(as_num(b))
            if isinstance(op, ast.Add):
                return [Res(p, VReal(x + y))]
            if isinstance(op, ast.Sub):
                return [Res(p, VReal(x - y))]
            if isinstance(op, ast.Mult):
                return [Res(p, VReal(x * y))]
            raise Unsupported('real op %s' % type(op).__name__)
        x, y = as_int(a), as_int(b)
        if isinstance(op, ast.Add):
            return [Res(p, VInt(x + y))]
        if isinstance(op, ast.Sub):
            return [Res(p, VInt(x - y))]
        if isinstance(op, ast.Mult):
            return [Res(p, VInt(x * y))]
        if isinstance(op, (ast.FloorDiv, ast.Mod)):
            cy = const_int(y)
            if cy is None or cy <= 0:
                raise Unsupported('// or % by a non-constant or non-positive divisor: %s' % self.src(node))
            return [Res(p, VInt(x / y if isinstance(op, ast.FloorDiv) else x % y))]
        if isinstance(op, ast.RShift):
            cy = const_int(y)
            if cy is None or cy < 0:
                raise Unsupported('>> by non-constant')
            return [Res(p, VInt(x / (1 << cy)))]
        if isinstance(op, ast.LShift):
            cy = const_int(y)
            if cy is None or cy < 0:
                raise Unsupported('<< by non-constant')
            return [Res(p, VInt(x * (1 << cy)))]
        if isinstance(op, ast.BitAnd):
            cy = const_int(y)
            cx = const_int(x)
            if cy is not None and cy >= 0:
                return [Res(p, VInt(bit_and_const(x, cy)))]
            if cx is not None and cx >= 0:
                return [Res(p, VInt(bit_and_const(y, cx)))]
            raise Unsupported('& of two symbolic operands')
        if isinstance(op, ast.BitOr):
            return [Res(p, VInt(bit_or(p, x, y)))]
        if isinstance(op, ast.BitXor):
            def xor_const(a, c):
                out = a
                i = 0
                while (1 << i) <= c:
                    if c & (1 << i):
                        out = out + (1 - 2 * ((a / (1 << i)) % 2)) * (1 << i)
                    i += 1
                return out
            for (u, v) in ((x, y), (y, x)):
                cv = const_int(v)
                if cv is not None and cv >= 0:
                    return [Res(p, VInt(xor_const(u, cv)))]
                cc = cond_const(v)
                if cc is not None:
                    return [Res(p, VInt(z3.If(cc[0], xor_const(u, cc[1]), u)))]
            raise Unsupported('^ of two symbolic operands')
        raise Unsupported('binop %s' % type(op).__name__)

    def _is_empty(self, t):
        return z3.is_true(z3.simplify(z3.Length(t) == 0))

    # ------------------------------------------------------------------ comparisons
    def ev_Compare(self, node, p, fc):
        operands = [node.left] + list(node.comparators)

        def f(q, vs):
            # resolve unions of operands used in ordering comparisons
            outs = [(q, [])]
            for i, v in enumerate(vs):
                need = False
                for j, op in enumerate(node.ops):
                    if (j == i or j + 1 == i) and isinstance(op, (ast.Lt, ast.LtE, ast.Gt, ast.GtE, ast.In, ast.NotIn)):
                        need = True
                nxt = []
                for (qq, acc) in outs:
                    if need and isinstance(v, VUnion) and not fc.spec:
                        for (q3, c) in self.cases(qq, v):
                            nxt.append((q3, acc + [c]))
                    else:
                        nxt.append((qq, acc + [v]))
                outs = nxt
            res = []
            for (qq, acc) in outs:
                terms = []
                exc = None
                for j, op in enumerate(node.ops):
                    a, b = acc[j], acc[j + 1]
                    if fc.spec:
                        a, b = (self.spec_coerce(a), self.spec_coerce(b)) if isinstance(op, (ast.Lt, ast.LtE, ast.Gt, ast.GtE)) else (a, b)
                    t = self.compare(op, a, b, qq, fc, node)
                    if isinstance(t, Res):
                        exc = t
                        break
                    terms.append(t)
                if exc is not None:
                    # a type error in a later comparison only happens if the earlier ones were true
                    if terms:
                        pre = z3.And(*terms)
                        q_ok = qq.fork()
                        q_ok.assume(z3.Not(pre))
                        if feasible(q_ok):
                            res.append(Res(q_ok, VBool(False)))
                        qq.assume(pre)
                        if feasible(qq):
                            res.append(exc)
                    else:
                        res.append(exc)
                    continue
                res.append(Res(qq, VBool(z3.And(*terms) if len(terms) > 1 else terms[0])))
            return res
        return self.bind(self.ev_many(operands, p, fc), f)

    def compare(self, op, a, b, p, fc, node):
        if isinstance(op, (ast.Is, ast.IsNot)):
            neg = isinstance(op, ast.IsNot)
            if isinstance(b, VNone) or isinstance(a, VNone):
                o = a if isinstance(b, VNone) else b
                if isinstance(o, VUnion):
                    t = o.is_('none')
                else:
                    t = z3.BoolVal(isinstance(o, VNone))
            elif isinstance(a, VRef) and isinstance(b, VRef):
                t = a.t == b.t
            elif isinstance(a, VUnion) and isinstance(b, VRef):
                t = z3.And(a.is_('ref'), a.get('ref') == b.t)
            elif isinstance(b, VUnion) and isinstance(a, VRef):
                t = z3.And(b.is_('ref'), b.get('ref') == a.t)
            elif isinstance(a, VUnion) and isinstance(b, VUnion):
                t = z3.And(a.is_('ref'), b.is_('ref'), a.get('ref') == b.get('ref'))
            else:
                raise Unsupported('is on %r, %r' % (a, b))
            return z3.Not(t) if neg else t
        if isinstance(op, (ast.Eq, ast.NotEq)):
            if a is None or b is None:
                raise Unsupported('== on unset')
            t = self.veq(p, a, b, strict=fc.spec)
            return z3.Not(t) if isinstance(op, ast.NotEq) else t
        if isinstance(op, (ast.In, ast.NotIn)):
            t = self.contains(p, a, b)
            return z3.Not(t) if isinstance(op, ast.NotIn) else t
        # ordering
        if not (is_num(a) and is_num(b)):
            if fc.spec:
                raise Unsupported('spec ordering on %r, %r: %s' % (a, b, self.src(node)))
            return self.raise_(p, 'TypeError', self.src(node))
        real = isinstance(a, VReal) or isinstance(b, VReal)
        x = as_num(a)
        y = as_num(b)
        if real:
            x = x if isinstance(a, VReal) else z3.ToReal(x)
            y = y if isinstance(b, VReal) else z3.ToReal(y)
        if isinstance(op, ast.Lt):
            return x < y
        if isinstance(op, ast.LtE):
            return x <= y
        if isinstance(op, ast.Gt):
            return x > y
        if isinstance(op, ast.GtE):
            return x >= y
        raise Unsupported('compare op')

    def contains(self, p, a, b):
        self.policy_escape(p, b, 'in')
        if isinstance(b, VRef) and b.cls == 'dict' or isinstance(b, VRef) and b.cls is None:
            k = self.key_term(a)
            return z3.Select(harr(p, '$dom'), b.t, k)
        if isinstance(b, VConstDict):
            ca = const_int(as_int(a))
            if ca is not None:
                return z3.BoolVal(ca in b.d)
            return z3.Or(*[as_int(a) == k for k in b.d])
        raise Unsupported('in on %r' % (b,))

    def key_term(self, k, p=None):
        if isinstance(k, VUnion) and p is not None:
            kk = self.known_kind(p, k.t, simp(k.t))
            if kk in ('obj', 'int', 'ref'):
                return k.get(kk)
        if isinstance(k, (VInt, VBool)):
            return as_int(k)
        if isinstance(k, (VObj, VRef)):
            return k.t
        if isinstance(k, VUnion):
            t = simp(k.t)
            if z3.is_app(t) and t.decl().name() in ('v_obj', 'v_int', 'v_ref'):
                return t.arg(0)
            return z3.If(k.is_('obj'), k.get('obj'), z3.If(k.is_('ref'), k.get('ref'), k.get('int')))
        raise Unsupported('dict key %r' % (k,))
