"""Verification units: a function against a contract, a lemma, a recursive spec function's termination."""
import ast, time, subprocess, tempfile, os, z3
from .values import *
from .state import *
from .engine import Engine as EngineBase, Res, FnCtx, Obligation, as_int
from .engine_access import AccessMixin
from .engine_stmt import StmtMixin, NEXT, RET, RAISE
from .engine_call import CallMixin
from . import front


class Engine(EngineBase, AccessMixin, StmtMixin, CallMixin):
    unit_target = None

    # ------------------------------------------------------------------ ghost statements
    def run_ghost(self, calls, p, sfc, where):
        sfc.ghost_ok = True
        for call in calls:
            fn = call.func.id
            arg = call.args[0]
            if fn.startswith('hint'):
                t = self.spec_bool(arg, p, sfc)
                self.oblige(p, '%s/hint:%s' % (where, self.src(arg)[:60]), t, 'hint')
            elif fn.startswith('use'):
                self.use_lemma(arg, p, sfc, where)
            elif fn.startswith('unfold'):
                self.sp_unfold(call, p, sfc)
            elif fn == 'gset':
                # ghost assignment: gset(obj.field, value) (ghost fields are never read by the code)
                gv = self.ev(call.args[1], p, sfc)[0].v
                tgt = call.args[0]
                obj = self.ev(tgt.value, p, sfc)[0].v
                if isinstance(obj, VUnion):
                    obj = VRef(obj.get('ref'))
                store_value(p, tgt.attr, obj.t, gv)
            else:
                raise Unsupported('ghost statement ' + fn)

    def use_lemma(self, call, p, sfc, where, within=None, measure0=None):
        name = call.func.id
        L = self.specs.lemmas.get(name)
        if L is None:
            raise Unsupported('unknown lemma ' + name)
        vs = [self.ev(a, p, sfc)[0].v for a in call.args]
        saved = p.env
        env = {}
        for v, (n, t) in zip(vs, L.params):
            env[n] = self.value_of_type(self.coerce_to(v, t), t)
        lfc = FnCtx(self.specs.module_ctx, 'lemma:' + name, spec=True)
        lfc.old = sfc.old
        p.env = env
        try:
            for i, r in enumerate(L.requires):
                self.oblige(p, '%s/use:%s/requires%d' % (where, name, i), self.spec_bool(r, p, lfc), 'lemma-pre')
            if within is not None and within.name == name:
                m = as_int(self.ev(ast.parse(L.decreases, mode='eval').body, p, lfc)[0].v)
                self.oblige(p, '%s/use:%s/decreases' % (where, name), z3.And(m >= 0, m < measure0), 'variant')
            for e in L.ensures:
                p.assume(self.spec_bool(e, p, lfc))
        finally:
            p.env = saved

    # ------------------------------------------------------------------ lemma verification
    def verify_lemma(self, L):
        self.unit = 'lemma:' + L.name
        self.props = L.props
        p = Path()
        fc = FnCtx(self.specs.module_ctx, 'lemma:' + L.name, spec=True)
        fc.ghost_ok = True
        for (n, t) in L.params:
            p.env[n] = self.fresh_of_type(p, n, t)
            if t == 'Bytes':
                p.env[n].code = False
        self.inputs = {n: v for n, v in p.env.items()}
        m0 = None
        if L.decreases:
            m0 = as_int(self.ev(ast.parse(L.decreases, mode='eval').body, p, fc)[0].v)
        paths = self.lemma_block(L.node.body, p, fc, L, m0)
        self.covers = sum(1 for q in paths if feasible(q, None, 1000))
        for q in paths:
            self.oblige(q, 'lemma:%s/canary' % L.name, z3.BoolVal(False), 'canary', assume_after=False)
        return self.obls

    def lemma_block(self, stmts, p, fc, L, m0):
        states = [p]
        for st in stmts:
            nxt = []
            for q in states:
                nxt.extend(self.lemma_stmt(st, q, fc, L, m0))
            states = nxt
        return states

    def lemma_stmt(self, st, p, fc, L, m0):
        if isinstance(st, ast.Pass) or (isinstance(st, ast.Expr) and isinstance(st.value, ast.Constant)):
            return [p]
        if isinstance(st, ast.If):
            c = self.spec_bool(st.test, p, fc)
            out = []
            q = p.fork()
            p.assume(c)
            p.trace.append(self.src(st.test))
            if feasible(p):
                out.extend(self.lemma_block(st.body, p, fc, L, m0))
            q.assume(z3.Not(c))
            q.trace.append('not(%s)' % self.src(st.test))
            if feasible(q):
                out.extend(self.lemma_block(st.orelse, q, fc, L, m0))
            return out
        if isinstance(st, ast.Expr) and isinstance(st.value, ast.Call) and isinstance(st.value.func, ast.Name):
            call = st.value
            fn = call.func.id
            where = 'lemma:' + L.name
            if fn == 'requires':
                p.assume(self.spec_bool(call.args[0], p, fc))
                return [p]
            if fn == 'ensures':
                self.oblige(p, '%s/ensures:%s' % (where, self.src(call.args[0])[:70]), self.spec_bool(call.args[0], p, fc), 'ensures')
                return [p]
            if fn == 'hint':
                self.oblige(p, '%s/hint:%s' % (where, self.src(call.args[0])[:70]), self.spec_bool(call.args[0], p, fc), 'hint')
                return [p]
            if fn == 'unfold':
                self.sp_unfold(call, p, fc)
                return [p]
            if fn in self.specs.lemmas:
                self.use_lemma(call, p, fc, where, within=L, measure0=m0)
                return [p]
        raise Unsupported('lemma statement: ' + self.src(st))

    # ------------------------------------------------------------------ spec function termination
    def verify_spec_fn(self, f):
        """recursive spec functions: the measure strictly decreases and stays >= 0 at each recursive call"""
        self.unit = 'spec:' + f.name
        p = Path()
        fc = FnCtx(self.specs.module_ctx, 'spec:' + f.name, spec=True)
        for (n, t) in f.params:
            p.env[n] = self.fresh_of_type(p, n, t)
        if f.decreases is None:
            raise Unsupported('recursive spec function %s lacks decreases' % f.name)
        mexpr = ast.parse(f.decreases, mode='eval').body
        m0 = as_int(self.ev(mexpr, p, fc)[0].v)
        self._term_walk(f, f.body, p, fc, mexpr, m0)
        self.covers = 1
        return self.obls

    def _term_walk(self, f, e, p, fc, mexpr, m0):
        if isinstance(e, ast.IfExp):
            c = self.spec_bool(e.test, p, fc)
            self._term_walk(f, e.test, p, fc, mexpr, m0)
            q = p.fork()
            p.assume(c)
            self._term_walk(f, e.body, p, fc, mexpr, m0)
            q.assume(z3.Not(c))
            self._term_walk(f, e.orelse, q, fc, mexpr, m0)
            return
        if isinstance(e, ast.Call) and isinstance(e.func, ast.Name) and e.func.id == f.name:
            vs = [self.ev(a, p, fc)[0].v for a in e.args]
            saved = p.env
            p.env = {n: self.value_of_type(self.coerce_to(v, t), t) for v, (n, t) in zip(vs, f.params)}
            m1 = as_int(self.ev(mexpr, p, fc)[0].v)
            p.env = saved
            self.oblige(p, 'spec:%s/decreases:%s' % (f.name, self.src(e)[:60]), z3.And(m1 >= 0, m1 < m0, m0 >= 0), 'variant',
                        assume_after=False)
        for sub in ast.iter_child_nodes(e):
            if isinstance(sub, ast.expr):
                self._term_walk(f, sub, p, fc, mexpr, m0)

    # ------------------------------------------------------------------ function against contract
    def verify_contract(self, c, cls=None, combo=None):
        repo = self.repo
        found = repo.function(c.target)
        if found is None:
            raise Unsupported('contract target %s not found in the repository' % c.target)
        module, ci, fnode, outer = found
        self.unit = c.key + ('@' + cls.split('.')[-2] if cls else '') + (('[%s]' % ','.join('%s=%s' % kv for kv in combo)) if combo else '')
        combo_d = dict(combo or ())
        self.unit_target = c.target
        self.contract_name = c.name
        self.props = c.props
        self.fn_hash = repo.source_hash(fnode)
        p = Path()
        fc = FnCtx(module, c.target, node=fnode, cls=ci, locals_=front.local_names(fnode))
        real_params = [a.arg for a in fnode.args.args]
        ptypes = dict(c.params)
        if outer is not None:
            # closure: captured variables are parameters of the contract
            real_params = [n for (n, t) in c.params]
        for n in real_params:
            if n not in ptypes:
                raise Unsupported('contract of %s does not type parameter %s' % (c.target, n))
        env = {}
        for (n, t) in c.params:
            if n == 'self' and cls is not None and isinstance(t, tuple):
                t = ('Ref', cls)
            if n in combo_d:
                cv = combo_d[n]
                env[n] = VBool(bool(cv)) if t == 'bool' else (VVer(VER_V31 if cv == 'v31' else VER_V311) if t == 'Ver' else VInt(int(cv)))
            else:
                env[n] = self.fresh_of_type(p, n, t)
        self.inputs = dict(env)
        self.policy_self = None
        pc_ = self.policy_conf()
        if pc_ is not None and ci is not None and pc_['class'] in repo.mro(ci.qname) and isinstance(env.get('self'), VRef):
            self.policy_self = env['self']
        p.env = {n: env[n] for n in env}
        sfc = self.contract_fc(c, None)
        sfc.ghost_ok = True
        self.eval_lets(c, p, sfc)
        env = dict(p.env)
        for r in c.requires:
            p.assume(self.spec_bool(r, p, sfc))
        # entry-state heap well-formedness for the fields listed in the sidecars (HEAP_WF_FIELDS): an object that exists
        # at entry refers, through such a field, only to objects that exist at entry (nothing points at the future)
        wf_fields = self.specs.consts['HEAP_WF_FIELDS'][1] if 'HEAP_WF_FIELDS' in self.specs.consts else []
        if wf_fields:
            n0 = next_ref(p)
            rr = z3.Int('wf_r')
            for f in wf_fields:
                arr = farr(p, f)
                sel = z3.Select(arr, rr)
                p.assume(z3.ForAll([rr], z3.Implies(z3.And(rr > 0, rr < n0, val_is(sel, 'ref')),
                                                    z3.And(val_get(sel, 'ref') > 0, val_get(sel, 'ref') < n0)), patterns=[sel]))
        old = (dict(p.env), dict(p.heap), p.epoch)
        sfc.old = old
        fc.old = old
        for (target, value) in c.ghost_sets:
            gv = self.ev(value, p, sfc)[0].v
            for r in self.assign(target, gv, p, sfc):
                pass
        self.run_ghost(c.pre_ghost, p, sfc, c.key + '/pre')
        # raises conditions are evaluated in the pre-state
        conds = [(ecls, self.spec_bool(when, p, sfc) if when is not None else None) for (ecls, when) in c.raises]
        code_env = {n: env[n] for n in real_params}
        ghost_env = {n: env[n] for n in env if n not in real_params}
        p.env = dict(code_env)
        p.ghost = dict(p.ghost)
        p.ghost['genv'] = {n: env[n] for n in env if n not in real_params}
        outs = self.ex_block(fnode.body, p, fc)
        self.covers = 0
        for (k, q, v) in outs:
            if k == NEXT:
                k, v = RET, VNone()
            if k == RET:
                self.check_normal_exit(c, q, v, env, old, conds)
            elif k == RAISE:
                self.check_raise_exit(c, q, v, env, old, conds)
            else:
                raise Unsupported('break/continue escaped')
        return self.obls

    def check_normal_exit(self, c, q, v, env, old, conds):
        if feasible(q, None, 1000):
            self.covers += 1
        self.oblige(q, c.key + '/canary', z3.BoolVal(False), 'canary', assume_after=False)
        self.policy_escape(q, v, 'returned')
        sfc = self.contract_fc(c, old)
        sfc.ghost_ok = True
        for (ecls, wt) in conds:
            if wt is not None:
                self.oblige(q, '%s/returns-but-should-raise:%s' % (c.key, ecls), z3.Not(wt), 'raises-iff')
        saved = q.env
        q.env = dict(env)
        # ghost / typed params keep their entry values; result bound
        outs = [(q, v)]
        if isinstance(v, VUnion):
            try:
                outs = self.cases(q, v)
            except Unsupported:
                outs = [(q, v)]
        outs2 = []
        for (q2, rv) in outs:
            if isinstance(rv, VRef) and rv.cls is None:
                try:
                    for (q3, cn) in self.classof(q2, rv):
                        outs2.append((q3, VRef(rv.t, cn)))
                    continue
                except Unsupported:
                    pass
            outs2.append((q2, rv))
        for (q2, rv) in outs2:
            q2.env = dict(env)
            sfc.result = rv
            if c.ret is not None and c.ret != 'Any':
                ok = self.type_check(q2, rv, c.ret)
                if ok is not True:
                    self.oblige(q2, c.key + '/result-type', ok, 'ensures')
            self.run_ghost(c.post_ghost, q2, sfc, c.key + '/post')
            for i, e in enumerate(c.ensures):
                self.oblige(q2, '%s/ensures%d:%s' % (c.key, i, self.src(e)[:70]), self.spec_bool(e, q2, sfc), 'ensures')
            self.check_frame(c, q2, old, sfc)

    def check_raise_exit(self, c, q, exc, env, old, conds):
        allowed = [(ecls, wt) for (ecls, wt) in conds if self.exc_subclass(exc.cls, ecls)]
        name = '%s/noraise:%s:%s' % (c.key, exc.cls, exc.origin[:60])
        if not allowed:
            self.oblige(q, name, z3.BoolVal(False), 'noraise')
            return
        ws = [wt if wt is not None else z3.BoolVal(True) for (e, wt) in allowed]
        self.oblige(q, '%s/raises-only-when:%s:%s' % (c.key, exc.cls, exc.origin[:50]), z3.Or(*ws), 'raises-iff')
        sfc = self.contract_fc(c, old)
        q.env = dict(env)
        for i, e in enumerate(c.ensures_raise):
            self.oblige(q, '%s/ensures_raise%d:%s' % (c.key, i, self.src(e)[:60]), self.spec_bool(e, q, sfc), 'ensures')
        self.check_frame(c, q, old, sfc)

    def check_frame(self, c, q, old, sfc):
        if c.modifies is None:
            return
        old_env, old_heap, old_epoch = old
        next0 = old_heap.get('$next', z3.Int('H0_$next'))
        locs = {}      # field -> [ref terms]
        whole = set()
        dict_rows = []
        all_dicts = False
        qq = q.fork()
        qq.env = dict(old_env)
        qq.heap = dict(old_heap)
        qq.epoch = old_epoch
        keep_only = None
        for m in c.modifies:
            if isinstance(m, ast.Attribute):
                r = self.ev(m.value, qq, sfc)[0].v
                if isinstance(r, VUnion):
                    # only a location if the base is an object; otherwise an impossible reference (0)
                    locs.setdefault(m.attr, []).append(z3.If(r.is_('ref'), r.get('ref'), z3.IntVal(0)))
                    continue
                locs.setdefault(m.attr, []).append(r.t)
            elif isinstance(m, ast.Call) and m.func.id == 'fields':
                for a in m.args:
                    whole.add(ast.literal_eval(a))
            elif isinstance(m, ast.Call) and m.func.id == 'dicts':
                all_dicts = True
            elif isinstance(m, ast.Call) and m.func.id == 'dict_rows':
                for a in m.args:
                    r = self.ev(a, qq, sfc)[0].v
                    if isinstance(r, VUnion):
                        r = VRef(r.get('ref'))
                    dict_rows.append(r.t)
            elif isinstance(m, ast.Call) and m.func.id in ('allocates', 'callbacks'):
                pass
            elif isinstance(m, ast.Call) and m.func.id == 'all_but':
                keep_only = set((x if x.startswith('$') else 'f:' + x) for x in self.all_but_names(m))
        r = z3.Int('fr_r')
        k = z3.Int('fr_k')
        changed_any = False
        for name, arr in q.heap.items():
            b0 = old_heap.get(name)
            if b0 is not None and not arr.eq(b0) and name != '$next':
                changed_any = True
        if not changed_any and not c.modifies:
            # modifies(): syntactically nothing was written on this path
            self.oblige(q, '%s/frame:nothing-written' % c.key, z3.BoolVal(True), 'frame', assume_after=False)
        for name, arr in q.heap.items():
            base = old_heap.get(name)
            if base is None:
                base = z3.Const('H0_' + name, arr.sort()) if name != '$next' and name != '$cblog' else None
            if base is None or arr.eq(base):
                continue
            if keep_only is not None and name not in keep_only:
                continue
            if name.startswith('f:'):
                f = name[2:]
                if f in whole:
                    continue
                excl = [r != l for l in locs.get(f, [])]
                goal = z3.ForAll([r], z3.Implies(z3.And(r > 0, r < next0, *excl), z3.Select(arr, r) == z3.Select(base, r)))
                self.oblige(q, '%s/frame:%s' % (c.key, f), goal, 'frame', assume_after=False)
            elif name in ('$dom', '$val', '$ord', '$dq'):
                if all_dicts:
                    continue
                excl = [r != l for l in dict_rows]
                goal = z3.ForAll([r, k], z3.Implies(z3.And(r > 0, r < next0, *excl), z3.Select(arr, r, k) == z3.Select(base, r, k)))
                self.oblige(q, '%s/frame:%s' % (c.key, name), goal, 'frame', assume_after=False)
            elif name in ('$card', '$clock', '$dqh', '$dqt'):
                if all_dicts:
                    continue
                excl = [r != l for l in dict_rows]
                goal = z3.ForAll([r], z3.Implies(z3.And(r > 0, r < next0, *excl), z3.Select(arr, r) == z3.Select(base, r)))
                self.oblige(q, '%s/frame:%s' % (c.key, name), goal, 'frame', assume_after=False)
            elif name == '$cls':
                goal = z3.ForAll([r], z3.Implies(z3.And(r > 0, r < next0), z3.Select(arr, r) == z3.Select(base, r)))
                self.oblige(q, '%s/frame:$cls' % c.key, goal, 'frame', assume_after=False)
            elif name == '$cblog':
                if not any(isinstance(m, ast.Call) and m.func.id == 'callbacks' for m in c.modifies):
                    self.oblige(q, '%s/frame:callbacks' % c.key, arr == base, 'frame', assume_after=False)


# ====================================================================== discharge
CVC5 = '/usr/bin/cvc5'


def solve(assumptions, goal, timeout_ms, want_model=True, quick=False, seed_shift=0):
    """returns (result, backend, seconds, model|None, detail); result in proved / failed / unknown.
    z3's sequence solver is unstable on identical input, so an `unknown` is retried with other seeds before
    cvc5 gets the exported problem.  Only `unsat` (proved) and a `sat` whose model satisfies every assertion
    (failed) are believed."""
    t0 = time.time()
    seen = set()
    asm = []
    for a in assumptions:
        k = a.get_id()
        if k not in seen:
            seen.add(k)
            asm.append(a)
    ver = 'z3-%s' % z3.get_version_string()
    reason = None
    s = None
    has_quant = any(_has_quantifier(a) for a in asm) or _has_quantifier(goal)
    candidate = None
    tried_projection = False
    plan = [(0, 2000)] if quick else [(0, timeout_ms // 8)] + [(sd, timeout_ms // 16) for sd in (1, 2, 3, 4, 5, 6)] + [(7, timeout_ms // 4), (8, timeout_ms // 4), (9, timeout_ms // 2)]
    if seed_shift:
        plan = [(sd + seed_shift + 10, tmo) for (sd, tmo) in plan]
    for (seed, tmo) in plan:
        s = z3.Solver()
        s.set('timeout', max(tmo, 200))
        s.set('random_seed', seed)
        if seed:
            s.set('smt.random_seed', seed)
        for a in asm:
            s.add(a)
        s.add(z3.Not(goal))
        # z3 does not always honour its own timeout (sequence / nonlinear cores): interrupt it from a watchdog
        import threading
        wd = threading.Timer(max(tmo, 200) / 1000.0 + 3.0, s.ctx.interrupt)
        wd.daemon = True
        wd.start()
        try:
            r = s.check()
        except z3.Z3Exception:
            r = z3.unknown
        finally:
            wd.cancel()
        if r == z3.unsat:
            return 'proved', ver, time.time() - t0, None, ('' if seed == 0 else 'z3 retry with seed %d' % seed)
        if not quick and not tried_projection and r != z3.sat and (seed, tmo) == plan[min(2, len(plan) - 1)]:
            # three z3 attempts have failed: let cvc5 try the heap-free projection before z3 goes on
            tried_projection = True
            res, nkeep = cvc5_projection(asm, goal, max(timeout_ms, 20000))
            if res == 'unsat':
                return 'proved', 'cvc5-1.0.3', time.time() - t0, None, 'cvc5 on the projection without two-index heap arrays (%d of %d assumptions)' % (nkeep, len(asm))
        if r == z3.sat:
            m = s.model()
            bad = None
            for a in asm + [z3.Not(goal)]:
                try:
                    v = m.eval(a, model_completion=True)
                except z3.Z3Exception:
                    continue
                if z3.is_false(v):
                    bad = a
                    break
            if bad is None and not has_quant:
                return 'failed', ver, time.time() - t0, m, ''
            if bad is None:
                # with quantified hypotheses z3's `sat` only means "no refutation found with this instantiation
                # strategy": remember the candidate model, keep trying to prove
                candidate = candidate or m
                reason = 'sat not certified (quantified hypotheses)'
                continue
            # z3's sequence solver occasionally answers sat with a model that violates an assertion
            # (uninterpreted functions over Seq): such an answer is not believed
            reason = 'sat with a model violating an assertion'
            break
        reason = s.reason_unknown()
    dt = time.time() - t0
    if quick:
        return 'unknown', ver, dt, candidate, reason or ''
    t1 = time.time()
    res = run_cvc5(s, timeout_ms)
    dt2 = time.time() - t1
    if res == 'unsat':
        return 'proved', 'cvc5-1.0.3', dt + dt2, None, 'z3 unknown (%s)' % reason
    if res == 'sat':
        return 'unknown', 'z3+cvc5', dt + dt2, candidate, 'z3 unknown (%s); cvc5 sat (no model extracted)' % reason
    return 'unknown', 'z3+cvc5', dt + dt2, candidate, 'z3: %s; cvc5: %s' % (reason, res)


def _mentions_multi_array(t):
    """does the term mention an array with more than one index (z3 extension; cvc5 1.0 cannot read those)?"""
    seen = set()
    stack = [t]
    while stack:
        x = stack.pop()
        if x.get_id() in seen:
            continue
        seen.add(x.get_id())
        so = x.sort()
        if so.kind() == z3.Z3_ARRAY_SORT and z3.Z3_get_array_arity(so.ctx_ref(), so.ast) > 1:
            return True
        if z3.is_app(x):
            stack.extend(x.children())
        elif z3.is_quantifier(x):
            stack.append(x.body())
    return False


def cvc5_projection(asm, goal, timeout_ms):
    """second solver on a weaker problem: the assumptions that do not mention the two-index heap arrays (dropping
    assumptions is sound for proving).  Decides the pure sequence / integer obligations on which z3's sequence solver
    is erratic (proved in a second with one random seed, lost with the next)."""
    try:
        if _mentions_multi_array(goal):
            return None, 0
        keep = [a for a in asm if not _mentions_multi_array(a)]
        if not keep:
            return None, 0
        s = z3.Solver()
        for a in keep:
            s.add(a)
        s.add(z3.Not(goal))
        return run_cvc5(s, timeout_ms), len(keep)
    except Exception:
        return None, 0


def _has_quantifier(t):
    seen = set()
    stack = [t]
    while stack:
        x = stack.pop()
        if x.get_id() in seen:
            continue
        seen.add(x.get_id())
        if z3.is_quantifier(x):
            return True
        if z3.is_app(x):
            stack.extend(x.children())
    return False


def run_cvc5(solver, timeout_ms):
    try:
        smt = solver.to_smt2()
    except Exception as e:
        return 'export-error'
    # z3 prints its internal split of seq.nth (in-bounds / out-of-bounds part); both are seq.nth for cvc5,
    # whose seq.nth is likewise an unspecified function of (s, i) outside the bounds
    smt = '(set-logic ALL)\n' + smt.replace('seq.nth_i', 'seq.nth').replace('seq.nth_u', 'seq.nth')
    fd, path = tempfile.mkstemp(suffix='.smt2', prefix='pyvc_')
    try:
        with os.fdopen(fd, 'w') as f:
            f.write(smt)
        try:
            out = subprocess.run([CVC5, '--strings-exp', '--tlimit=%d' % timeout_ms, path], capture_output=True,
                                 text=True, timeout=timeout_ms / 1000 + 5)
        except subprocess.TimeoutExpired:
            return 'timeout'
        first = out.stdout.strip().splitlines()[0] if out.stdout.strip() else ('error: ' + out.stderr.strip()[:100])
        return first
    finally:
        try:
            os.unlink(path)
        except OSError:
            pass
