"""Library models: CPython built-ins and the Twisted objects the code uses (the trusted base).

Each model is an *assumed* contract; the list TRUSTED below is copied into every evidence file.
"""
import ast, z3, hashlib
from .values import *
from .state import *

TRUSTED = [
    "CPython: int is unbounded; // and % by positive constants are floor; & | << >> on ints as two's complement",
    "CPython: bytearray/bytes elements are 0..255; item assignment/append outside 0..255 raises ValueError; "
    "index out of range raises IndexError; slices clamp",
    "CPython UTF-8 codec (abstract Str sort): encodable(s) => valid_utf8(utf8 s) and utf8dec(utf8 s)=s; "
    "valid_utf8 b => utf8(utf8dec b)=b; strlen s <= len(utf8 s) <= 4*strlen s; unencodable -> UnicodeEncodeError, "
    "invalid bytes -> UnicodeDecodeError (both ValueError subclasses)",
    "CPython dict: len = number of keys; missing key raises KeyError; iteration in insertion order, "
    "RuntimeError if the key set changes during iteration; collections.deque append/popleft FIFO",
    "bytearray/list values are modelled with value semantics (justified by the alias census of the thorough tier)",
    "twisted Deferred: callback/errback on an already fired Deferred raises AlreadyCalledError; "
    "defer.succeed/fail return an already fired Deferred; user callbacks attached to Deferreds are passive",
    "twisted DelayedCall (callLater): delay must be >= 0; cancel() on a called/cancelled call raises "
    "AlreadyCalled/AlreadyCancelled; the reactor calls ACTIVE calls on time",
    "twisted LoopingCall: start(k) requires k>0 and not running, calls f() immediately then every k seconds until stop(); "
    "stop() requires running",
    "twisted transport: write/abortConnection/loseConnection never raise and do not call back synchronously",
    "twisted Logger: log.* has no effect and never raises (formatting is lazy)",
    "random.random() returns a real r with 0 <= r < 1; machine floats are treated as reals",
    "user callbacks (onPublish, onDisconnection, onMqttConnectionMade) are passive: no re-entry, no exception",
    "heap well-formedness at function entry for the fields in HEAP_WF_FIELDS (t_arg, t_owner): no object refers to an object allocated later",
]

LIB_CLASSES = {
    'Deferred': {'callback', 'errback', 'addCallback', 'addErrback', 'addCallbacks', 'addBoth'},
    'DelayedCall': {'cancel', 'active'},
    'LoopingCall': {'start', 'stop'},
    'Transport': {'write', 'abortConnection', 'loseConnection'},
    'dict': {'get', 'items', 'values', 'keys', 'pop'},
    'deque': {'append', 'popleft', 'appendleft', 'pop', 'clear'},
}

T_ACTIVE, T_CANCELLED, T_CALLED = 0, 1, 2


def seq_of(ints):
    if not ints:
        return z3.Empty(BytesS)
    us = [z3.Unit(z3.IntVal(i) if isinstance(i, int) else i) for i in ints]
    return us[0] if len(us) == 1 else z3.Concat(*us)


class StrTheory:
    def __init__(self):
        self.utf8 = z3.Function('utf8', StrS, BytesS)
        self.dec = z3.Function('utf8dec', BytesS, StrS)
        self.valid = z3.Function('valid_utf8', BytesS, B)
        self.enc = z3.Function('encodable', StrS, B)
        self.slen = z3.Function('strlen', StrS, I)
        self.ascii_ign = z3.Function('ascii_ignore', StrS, BytesS)

    def const(self, p, s):
        h = hashlib.sha1(s.encode('utf-8', 'surrogatepass')).hexdigest()[:10]
        t = z3.Const('str_' + h, StrS)
        try:
            b = s.encode('utf-8')
            p.assume(self.utf8(t) == seq_of(list(b)))
            p.assume(self.enc(t))
            p.assume(self.valid(seq_of(list(b))))
            p.assume(self.dec(seq_of(list(b))) == t)
        except UnicodeEncodeError:
            p.assume(z3.Not(self.enc(t)))
        p.assume(self.slen(t) == len(s))
        return VStr(t, const=s)

    def strlen(self, p, t):
        n = self.slen(t)
        p.assume(n >= 0)
        return n

    def utf8_of(self, p, t):
        u = self.utf8(t)
        n = self.slen(t)
        p.assume(n >= 0)
        p.assume(z3.Implies(self.enc(t), z3.And(self.valid(u), self.dec(u) == t,
                                                n <= z3.Length(u), z3.Length(u) <= 4 * n)))
        return u

    def dec_of(self, p, b):
        s = self.dec(b)
        p.assume(z3.Implies(self.valid(b), z3.And(self.utf8(s) == b, self.enc(s),
                                                  self.slen(s) <= z3.Length(b), z3.Length(b) <= 4 * self.slen(s))))
        p.assume(self.slen(s) >= 0)
        return s


# ---------------------------------------------------------------- names
BUILTIN_FUNCS = {'len', 'int', 'bytearray', 'bytes', 'str', 'isinstance', 'type', 'min', 'max', 'range',
                 'list', 'getattr', 'dict', 'bool', 'float', 'tuple', 'object'}
BUILTIN_EXC = set(EXC_BASES)


def builtin_name(eng, name):
    if name in BUILTIN_FUNCS:
        return VFunc('builtin', name)
    if name in BUILTIN_EXC:
        return VClass(name, exc=True)
    if name == 'True':
        return VBool(True)
    return None


def ext_entity(eng, q):
    """external (non-repo) imported names"""
    short = q.split('.')[-1]
    if q in ('twisted.internet.defer', 'twisted.internet.task', 'twisted.python.failure',
             'twisted.internet.reactor', 'twisted.internet.error', 'random', 'sys'):
        return VExt(short)
    if short == 'deque':
        return VFunc('builtin', 'deque')
    if short == 'Logger':
        return VFunc('builtin', 'Logger')
    if short in ('randint',):
        return VFunc('builtin', short)
    if short in ('implementer',):
        return VFunc('builtin', short)
    if short in ('Protocol', 'ReconnectingClientFactory'):
        return VClass('ext:' + short)
    if short == '__version__':
        return VOpaque('version')
    return VExt(short)


def ext_attr(eng, v, attr):
    n = v.name
    if n == 'logger':
        return VFunc('builtin', 'log')
    if n == 'defer' and attr in ('fail', 'succeed', 'Deferred'):
        return VFunc('builtin', 'defer.' + attr)
    if n == 'task' and attr == 'LoopingCall':
        return VFunc('builtin', 'task.LoopingCall')
    if n == 'random' and attr == 'random':
        return VFunc('builtin', 'random.random')
    if n == 'reactor' and attr == 'callLater':
        return VFunc('builtin', 'callLater')
    if n == 'failure' and attr == 'Failure':
        return VFunc('builtin', 'Failure')
    raise Unsupported('external attribute %s.%s' % (n, attr))


# ---------------------------------------------------------------- field helpers for library ghost state
def gset(p, ref, f, v):
    store_value(p, f, ref.t, v)


def gget(p, ref, f, kind):
    return val_get(z3.Select(farr(p, f), ref.t), kind)


def gis(p, ref, f, kind):
    return val_is(z3.Select(farr(p, f), ref.t), kind)


def cblog(p):
    if '$cblog' not in p.heap:
        p.heap['$cblog'] = z3.Const('H0_$cblog', z3.SeqSort(CbCall))     # not subject to all_but havoc epochs
    return p.heap['$cblog']


def log_callback(p, fnval, args):
    vals = [to_val(a) for a in args]
    while len(vals) < 6:
        vals.append(Val.v_unset)
    if len(vals) > 6:
        raise Unsupported('callback with more than 6 arguments')
    rec = CbCall.mk_cb(to_val(fnval), len(args), *vals)
    p.heap['$cblog'] = z3.Concat(cblog(p), z3.Unit(rec))


# ---------------------------------------------------------------- calls
def R(p, v=None):
    from .engine import Res
    return Res(p, v)


def call_builtin(eng, name, p, fc, node, self_v, args, kwargs):
    from .engine import Res, as_int, as_num, is_num, const_int
    h = HANDLERS.get(name)
    if h is None:
        raise Unsupported('library call %s' % name)
    return h(eng, p, fc, node, self_v, args, kwargs)


def resolve_all(eng, p, vals):
    """resolve unions among argument values (forking)"""
    outs = [(p, [])]
    for v in vals:
        nxt = []
        for (q, acc) in outs:
            for (q2, c) in eng.cases(q, v):
                nxt.append((q2, acc + [c]))
        outs = nxt
    return outs


def h_len(eng, p, fc, node, self_v, args, kwargs):
    from .engine import Res
    out = []
    for (q, [v]) in resolve_all(eng, p, args[:1]):
        if isinstance(v, (VBytes, VList)):
            out.append(Res(q, VInt(z3.Length(v.t))))
        elif isinstance(v, VStr):
            out.append(Res(q, VInt(eng.strings.strlen(q, v.t))))
        elif isinstance(v, VTuple):
            out.append(Res(q, VInt(len(v.items))))
        elif isinstance(v, VConstList):
            out.append(Res(q, VInt(len(v.items))))
        elif isinstance(v, VRef):
            for (q2, cls) in eng.classof(q, v):
                if cls == 'dict':
                    eng.policy_escape(q2, v, 'len()')
                    c = z3.Select(harr(q2, '$card'), v.t)
                    q2.assume(c >= 0)
                    out.append(Res(q2, VInt(c)))
                elif cls == 'deque':
                    out.append(Res(q2, VInt(eng.deque_len(q2, v))))
                else:
                    out.append(eng.raise_(q2, 'TypeError', eng.src(node)))
        elif isinstance(v, VNone) or is_numlike(v):
            out.append(eng.raise_(q, 'TypeError', 'len() of ' + eng.src(node)))
        else:
            raise Unsupported('len of %r' % (v,))
    return out


def is_numlike(v):
    return isinstance(v, (VInt, VBool, VReal))


def h_int(eng, p, fc, node, self_v, args, kwargs):
    from .engine import Res, as_int
    out = []
    for (q, [v]) in resolve_all(eng, p, args[:1]):
        if isinstance(v, (VInt, VBool)):
            out.append(Res(q, VInt(as_int(v))))
        elif isinstance(v, VReal):
            out.append(Res(q, VInt(z3.ToInt(v.t))))   # exact only for non-negative values (trunc = floor)
            eng.notes.append('int(float) modelled as floor')
        elif isinstance(v, VNone):
            out.append(eng.raise_(q, 'TypeError', eng.src(node)))
        elif isinstance(v, (VStr, VBytes)):
            raise Unsupported('int() of a string')
        else:
            out.append(eng.raise_(q, 'TypeError', eng.src(node)))
    return out


def h_bytearray(eng, p, fc, node, self_v, args, kwargs):
    from .engine import Res, as_int
    if not args:
        return [Res(p, VBytes(z3.Empty(BytesS)))]
    out = []
    for (q, vs) in resolve_all(eng, p, args[:1]):
        v = vs[0]
        enc = kwargs.get('encoding')
        if isinstance(v, VStr):
            if enc is None and len(args) > 1:
                enc = args[1]
            if enc is None:
                out.append(eng.raise_(q, 'TypeError', 'string argument without an encoding'))
                continue
            encname = enc.const if isinstance(enc, VStr) else None
            if encname == 'utf-8':
                u = eng.strings.utf8_of(q, v.t)
                ok = eng.strings.enc(v.t)
                if v.const is None and feasible(q, z3.Not(ok)):
                    q2 = q.fork()
                    q2.assume(z3.Not(ok))
                    q2.trace.append('string not encodable')
                    out.append(eng.raise_(q2, 'UnicodeEncodeError', eng.src(node)))
                q.assume(ok)
                out.append(Res(q, VBytes(u)))
            elif encname == 'ascii' and isinstance(kwargs.get('errors'), VStr) and kwargs['errors'].const == 'ignore':
                b = eng.strings.ascii_ign(v.t)
                q.assume(z3.Length(b) <= eng.strings.strlen(q, v.t))
                out.append(Res(q, VBytes(b)))
            else:
                raise Unsupported('bytearray encoding %r' % (encname,))
        elif isinstance(v, (VInt, VBool)):
            n = as_int(v)
            c = z3.simplify(n)
            if not z3.is_int_value(c):
                raise Unsupported('bytearray(n) with symbolic n')
            out.append(Res(q, VBytes(seq_of([0] * c.as_long()))))
        elif isinstance(v, VBytes):
            out.append(Res(q, VBytes(v.t, v.code)))
        else:
            out.append(eng.raise_(q, 'TypeError', eng.src(node)))
    return out


def h_bytes(eng, p, fc, node, self_v, args, kwargs):
    from .engine import Res
    out = []
    for (q, [v]) in resolve_all(eng, p, args[:1]):
        if isinstance(v, VBytes):
            out.append(Res(q, VBytes(v.t, v.code)))
        elif v is None or isinstance(v, VNone):
            out.append(eng.raise_(q, 'TypeError', eng.src(node)))
        else:
            raise Unsupported('bytes(%r)' % (v,))
    return out


def h_str(eng, p, fc, node, self_v, args, kwargs):
    from .engine import Res
    return [Res(p, VOpaque('str()'))]


def h_type(eng, p, fc, node, self_v, args, kwargs):
    from .engine import Res
    return [Res(p, VOpaque('type'))]


def h_minmax(which):
    def h(eng, p, fc, node, self_v, args, kwargs):
        from .engine import Res, as_num
        out = []
        for (q, vs) in resolve_all(eng, p, args):
            if not all(is_numlike(v) for v in vs):
                out.append(eng.raise_(q, 'TypeError', eng.src(node)))
                continue
            real = any(isinstance(v, VReal) for v in vs)
            ts = [(as_num(v) if isinstance(v, VReal) or not real else z3.ToReal(as_num(v))) for v in vs]
            acc = ts[0]
            for t in ts[1:]:
                acc = z3.If(t < acc, t, acc) if which == 'min' else z3.If(t > acc, t, acc)
            out.append(Res(q, VReal(acc) if real else VInt(acc)))
        return out
    return h


def h_range(eng, p, fc, node, self_v, args, kwargs):
    from .engine import Res, as_int
    from .engine_stmt import VRange
    out = []
    for (q, vs) in resolve_all(eng, p, args):
        if len(vs) == 1:
            out.append(Res(q, VRange(z3.IntVal(0), as_int(vs[0]))))
        elif len(vs) == 2:
            out.append(Res(q, VRange(as_int(vs[0]), as_int(vs[1]))))
        else:
            raise Unsupported('range with step')
    return out


def dict_keys_arr(eng, p, d):
    """abstract enumeration of the keys of dict d in insertion order: an array ka[0..n) with the finite-map facts
    (arrays, not sequences: z3 E-matches on select patterns reliably)"""
    ka = fresh('keys', z3.ArraySort(I, I))
    dom = harr(p, '$dom')
    ordr = harr(p, '$ord')
    card = z3.Select(harr(p, '$card'), d)
    j, j2, k = z3.Ints('kj kj2 kk')
    pos = z3.Function(Path.fresh_name('pos'), I, I)
    p.assume(card >= 0)
    p.assume(z3.ForAll([j], z3.Implies(z3.And(j >= 0, j < card),
                                       z3.And(z3.Select(dom, d, ka[j]), pos(ka[j]) == j)), patterns=[ka[j]]))
    p.assume(z3.ForAll([k], z3.Implies(z3.Select(dom, d, k),
                                       z3.And(pos(k) >= 0, pos(k) < card, ka[pos(k)] == k)),
                       patterns=[z3.Select(dom, d, k)]))
    p.assume(z3.ForAll([j, j2], z3.Implies(z3.And(j >= 0, j < j2, j2 < card),
                                           z3.Select(ordr, d, ka[j]) < z3.Select(ordr, d, ka[j2])),
                       patterns=[z3.MultiPattern(ka[j], ka[j2])]))
    return ka, card, pos


def h_list(eng, p, fc, node, self_v, args, kwargs):
    from .engine import Res
    out = []
    for (q, [v]) in resolve_all(eng, p, args[:1]):
        if isinstance(v, VRef):
            for (q2, cls) in eng.classof(q, v):
                if cls != 'dict':
                    raise Unsupported('list(%s)' % cls)
                eng.policy_escape(q2, v, 'list()')
                from .engine_stmt import VKeys
                ka, n, pos = dict_keys_arr(eng, q2, v.t)
                out.append(Res(q2, VKeys(v.t, ka, n, False, pos)))
        elif isinstance(v, VList):
            out.append(Res(q, v))
        else:
            raise Unsupported('list(%r)' % (v,))
    return out


def h_isinstance(eng, p, fc, node, self_v, args, kwargs):
    from .engine import Res
    v, t = args
    if isinstance(t, VFunc) and t.fk == 'builtin':
        tn = t.name
    elif isinstance(t, VClass):
        tn = t.name
    else:
        raise Unsupported('isinstance against %r' % (t,))
    kinds = {'str': ['str'], 'bytearray': ['bytes'], 'bytes': [], 'int': ['int', 'bool'], 'bool': ['bool'],
             'tuple': ['pair_si', 'pair_ib'], 'list': [k for k in KINDS if k.startswith('list_')],
             'float': ['real'], 'dict': None}.get(tn)
    if kinds is None:
        raise Unsupported('isinstance(..., %s)' % tn)
    if isinstance(v, VUnion):
        return [Res(p, VBool(z3.Or(*[v.is_(k) for k in kinds]) if kinds else z3.BoolVal(False)))]
    if isinstance(v, VTuple):
        return [Res(p, VBool(tn == 'tuple'))]
    if isinstance(v, VConstList):
        return [Res(p, VBool(tn == 'list'))]
    return [Res(p, VBool(v.kind in kinds))]


def h_log(eng, p, fc, node, self_v, args, kwargs):
    from .engine import Res
    return [Res(p, VNone())]


def h_noop_obj(eng, p, fc, node, self_v, args, kwargs):
    from .engine import Res
    return [Res(p, VOpaque('object'))]


def h_random(eng, p, fc, node, self_v, args, kwargs):
    from .engine import Res
    r = fresh('rnd', Rl)
    p.assume(z3.And(r >= 0, r < 1))
    return [Res(p, VReal(r))]


# ---- Deferred
def new_deferred(p, fired=False, ok=None, val=None):
    d = alloc(p, 'Deferred')
    gset(p, d, 'd_fired', VBool(fired))
    if fired:
        gset(p, d, 'd_ok', VBool(ok))
        gset(p, d, 'd_val', val)
    return d


def h_Deferred(eng, p, fc, node, self_v, args, kwargs):
    from .engine import Res
    return [Res(p, new_deferred(p))]


def h_succeed(eng, p, fc, node, self_v, args, kwargs):
    from .engine import Res
    return [Res(q, new_deferred(q, True, True, vs[0])) for (q, vs) in resolve_all(eng, p, args[:1])]


def h_fail(eng, p, fc, node, self_v, args, kwargs):
    from .engine import Res
    return [Res(q, new_deferred(q, True, False, vs[0])) for (q, vs) in resolve_all(eng, p, args[:1])]


def fire(ok):
    def h(eng, p, fc, node, self_v, args, kwargs):
        from .engine import Res
        out = []
        for (q, vs) in resolve_all(eng, p, args[:1]):
            fired = gget(q, self_v, 'd_fired', 'bool')
            if feasible(q, fired):
                q2 = q.fork()
                q2.assume(fired)
                q2.trace.append('Deferred already fired: %s' % eng.src(node))
                out.append(eng.raise_(q2, 'AlreadyCalledError', eng.src(node)))
            q.assume(z3.Not(fired))
            gset(q, self_v, 'd_fired', VBool(True))
            gset(q, self_v, 'd_ok', VBool(ok))
            gset(q, self_v, 'd_val', vs[0])
            out.append(Res(q, VNone()))
        return out
    return h


def h_addcb(eng, p, fc, node, self_v, args, kwargs):
    from .engine import Res
    return [Res(p, self_v)]


# ---- timers
def h_callLater(eng, p, fc, node, self_v, args, kwargs):
    from .engine import Res, as_num
    out = []
    for (q, vs) in resolve_all(eng, p, args):
        delay, fn = vs[0], vs[1]
        if not is_numlike(delay):
            out.append(eng.raise_(q, 'TypeError', eng.src(node)))
            continue
        dt = as_num(delay)
        dt = dt if isinstance(delay, VReal) else z3.ToReal(dt)
        neg = dt < 0
        if feasible(q, neg):
            q2 = q.fork()
            q2.assume(neg)
            out.append(eng.raise_(q2, 'AssertionError', 'callLater with negative delay: ' + eng.src(node)))
        q.assume(z3.Not(neg))
        t = alloc(q, 'DelayedCall')
        gset(q, t, 't_status', VInt(T_ACTIVE))
        gset(q, t, 't_delay', VReal(dt))
        if not isinstance(fn, VFunc):
            raise Unsupported('callLater target %r' % (fn,))
        if fn.fk == 'cb':
            gset(q, t, 't_fn', fn)
            owner = self_v
        else:
            gset(q, t, 't_fn', VInt(fn_code(fn.name)))
            owner = fn.self_v
        gset(q, t, 't_owner', owner if owner is not None else VNone())
        arg = vs[2] if len(vs) > 2 else None
        if arg is None and fn.fk == 'closure':
            arg = q.env.get('request')
        gset(q, t, 't_arg', arg if arg is not None else VNone())
        out.append(Res(q, t))
    return out


def h_cancel(eng, p, fc, node, self_v, args, kwargs):
    from .engine import Res
    st = gget(p, self_v, 't_status', 'int')
    out = []
    for code, exc in ((T_CANCELLED, 'AlreadyCancelled'), (T_CALLED, 'AlreadyCalled')):
        if feasible(p, st == code):
            q = p.fork()
            q.assume(st == code)
            q.trace.append('timer %s: %s' % (exc, eng.src(node)))
            out.append(eng.raise_(q, exc, eng.src(node)))
    p.assume(st == T_ACTIVE)
    gset(p, self_v, 't_status', VInt(T_CANCELLED))
    out.append(Res(p, VNone()))
    return out


def h_active(eng, p, fc, node, self_v, args, kwargs):
    from .engine import Res
    return [Res(p, VBool(gget(p, self_v, 't_status', 'int') == T_ACTIVE))]


# ---- LoopingCall
def h_LoopingCall(eng, p, fc, node, self_v, args, kwargs):
    from .engine import Res
    lc = alloc(p, 'LoopingCall')
    fn = args[0]
    gset(p, lc, 'lc_running', VBool(False))
    gset(p, lc, 'lc_fn', VInt(fn_code(fn.name)))
    gset(p, lc, 'lc_owner', fn.self_v if fn.self_v is not None else VNone())
    p.ghost = dict(p.ghost)
    p.ghost['lc:%s' % lc.t] = fn
    return [Res(p, lc)]


def h_lc_start(eng, p, fc, node, self_v, args, kwargs):
    from .engine import Res, as_num
    out = []
    for (q, vs) in resolve_all(eng, p, args[:1]):
        k = vs[0]
        if not is_numlike(k):
            out.append(eng.raise_(q, 'TypeError', eng.src(node)))
            continue
        kt = as_num(k)
        bad = kt <= 0 if not isinstance(k, VReal) else kt <= 0
        if feasible(q, bad):
            q2 = q.fork()
            q2.assume(bad)
            out.append(eng.raise_(q2, 'ValueError', 'LoopingCall.start with non-positive interval: ' + eng.src(node)))
        q.assume(z3.Not(bad))
        running = gget(q, self_v, 'lc_running', 'bool')
        if feasible(q, running):
            q2 = q.fork()
            q2.assume(running)
            out.append(eng.raise_(q2, 'AssertionError', 'LoopingCall already running: ' + eng.src(node)))
        q.assume(z3.Not(running))
        gset(q, self_v, 'lc_running', VBool(True))
        gset(q, self_v, 'lc_interval', k)
        fn = q.ghost.get('lc:%s' % self_v.t)
        if fn is None:
            raise Unsupported('LoopingCall.start on a loop not created in this function')
        # start(now=True): the function is called immediately
        for r in eng.call_value(fn, [], {}, q, fc, node):
            if r.exc is not None:
                out.append(r)
            else:
                out.append(Res(r.p, VNone()))
    return out


def h_lc_stop(eng, p, fc, node, self_v, args, kwargs):
    from .engine import Res
    running = gget(p, self_v, 'lc_running', 'bool')
    out = []
    if feasible(p, z3.Not(running)):
        q = p.fork()
        q.assume(z3.Not(running))
        out.append(eng.raise_(q, 'AssertionError', 'LoopingCall.stop on a loop that is not running: ' + eng.src(node)))
    p.assume(running)
    gset(p, self_v, 'lc_running', VBool(False))
    out.append(Res(p, VNone()))
    return out


# ---- transport
def t_out(p, tr):
    return val_get(z3.Select(farr(p, 'tr_out'), tr.t), 'list_bytes')


def h_write(eng, p, fc, node, self_v, args, kwargs):
    from .engine import Res
    out = []
    for (q, vs) in resolve_all(eng, p, args[:1]):
        b = vs[0]
        if not isinstance(b, VBytes):
            out.append(eng.raise_(q, 'TypeError', 'transport.write of non-bytes: ' + eng.src(node)))
            continue
        cur = t_out(q, self_v)
        gset(q, self_v, 'tr_out', VList(z3.Concat(cur, z3.Unit(b.t)), 'bytes'))
        out.append(Res(q, VNone()))
    return out


def counter(field):
    def h(eng, p, fc, node, self_v, args, kwargs):
        from .engine import Res
        cur = gget(p, self_v, field, 'int')
        gset(p, self_v, field, VInt(cur + 1))
        return [Res(p, VNone())]
    return h


# ---- dict / deque
def h_dict_new(eng, p, fc, node, self_v, args, kwargs):
    from .engine import Res
    d = alloc(p, 'dict')
    k = z3.Int('dk')
    # a new dict is empty
    p.assume(z3.Select(harr(p, '$card'), d.t) == 0)
    p.assume(z3.ForAll([k], z3.Not(z3.Select(harr(p, '$dom'), d.t, k)), patterns=[z3.Select(harr(p, '$dom'), d.t, k)]))
    return [Res(p, d)]


def h_deque_new(eng, p, fc, node, self_v, args, kwargs):
    from .engine import Res
    d = alloc(p, 'deque')
    p.heap['$dqh'] = z3.Store(harr(p, '$dqh'), d.t, 0)
    p.heap['$dqt'] = z3.Store(harr(p, '$dqt'), d.t, 0)
    return [Res(p, d)]


def h_dict_get(eng, p, fc, node, self_v, args, kwargs):
    from .engine import Res
    eng.policy_key(p, self_v, args[0], node)
    k = eng.key_term(args[0])
    eng.dict_facts(p, self_v.t, k)
    dom = z3.Select(harr(p, '$dom'), self_v.t, k)
    out = []
    if feasible(p, dom):
        q = p.fork()
        q.assume(dom)
        r = VRef(z3.Select(harr(q, '$val'), self_v.t, k))
        eng.wf_value(q, r)
        out.append(Res(q, r))
    if feasible(p, z3.Not(dom)):
        p.assume(z3.Not(dom))
        out.append(Res(p, args[1] if len(args) > 1 else VNone()))
    return out


def h_dict_items(eng, p, fc, node, self_v, args, kwargs):
    from .engine import Res
    from .engine_stmt import VKeys
    eng.policy_escape(p, self_v, '.items()')
    ka, n, pos = dict_keys_arr(eng, p, self_v.t)
    return [Res(p, VKeys(self_v.t, ka, n, True, pos))]


def h_dict_values(eng, p, fc, node, self_v, args, kwargs):
    from .engine import Res
    from .engine_stmt import VKeys
    eng.policy_escape(p, self_v, '.values()')
    ka, n, pos = dict_keys_arr(eng, p, self_v.t)
    return [Res(p, VKeys(self_v.t, ka, n, 'values', pos))]


def h_dict_keys(eng, p, fc, node, self_v, args, kwargs):
    from .engine import Res
    from .engine_stmt import VKeys
    eng.policy_escape(p, self_v, '.keys()')
    ka, n, pos = dict_keys_arr(eng, p, self_v.t)
    return [Res(p, VKeys(self_v.t, ka, n, False, pos))]


def h_deque_append(eng, p, fc, node, self_v, args, kwargs):
    from .engine import Res
    out = []
    for (q, vs) in resolve_all(eng, p, args[:1]):
        if not isinstance(vs[0], VRef):
            raise Unsupported('deque of non-references')
        eng.policy_escape(q, vs[0], 'appended to a deque')
        eng.deque_len(q, self_v)
        t = z3.Select(harr(q, '$dqt'), self_v.t)
        q.heap['$dq'] = z3.Store(harr(q, '$dq'), self_v.t, t, vs[0].t)
        q.heap['$dqt'] = z3.Store(harr(q, '$dqt'), self_v.t, t + 1)
        store_value(q, 'q_pos', vs[0].t, VInt(t))      # ghost: the position an element was put at (model state)
        out.append(Res(q, VNone()))
    return out


def h_deque_popleft(eng, p, fc, node, self_v, args, kwargs):
    from .engine import Res
    n = eng.deque_len(p, self_v)
    out = []
    empty = n == 0
    if feasible(p, empty):
        q = p.fork()
        q.assume(empty)
        out.append(eng.raise_(q, 'IndexError', 'pop from an empty deque: ' + eng.src(node)))
    p.assume(z3.Not(empty))
    h = z3.Select(harr(p, '$dqh'), self_v.t)
    r = VRef(z3.Select(harr(p, '$dq'), self_v.t, h))
    eng.wf_value(p, r)
    p.heap['$dqh'] = z3.Store(harr(p, '$dqh'), self_v.t, h + 1)
    out.append(Res(p, r))
    return out


def h_deque_appendleft(eng, p, fc, node, self_v, args, kwargs):
    from .engine import Res
    out = []
    for (q, vs) in resolve_all(eng, p, args[:1]):
        if not isinstance(vs[0], VRef):
            raise Unsupported('deque of non-references')
        eng.policy_escape(q, vs[0], 'appended to a deque')
        eng.deque_len(q, self_v)
        h = z3.Select(harr(q, '$dqh'), self_v.t)
        q.heap['$dq'] = z3.Store(harr(q, '$dq'), self_v.t, h - 1, vs[0].t)
        q.heap['$dqh'] = z3.Store(harr(q, '$dqh'), self_v.t, h - 1)
        store_value(q, 'q_pos', vs[0].t, VInt(h - 1))
        out.append(Res(q, VNone()))
    return out


def h_deque_pop(eng, p, fc, node, self_v, args, kwargs):
    from .engine import Res
    if args:
        raise Unsupported('deque.pop with an argument')
    n = eng.deque_len(p, self_v)
    out = []
    empty = n == 0
    if feasible(p, empty):
        q = p.fork()
        q.assume(empty)
        out.append(eng.raise_(q, 'IndexError', 'pop from an empty deque: ' + eng.src(node)))
    p.assume(z3.Not(empty))
    t = z3.Select(harr(p, '$dqt'), self_v.t)
    r = VRef(z3.Select(harr(p, '$dq'), self_v.t, t - 1))
    eng.wf_value(p, r)
    p.heap['$dqt'] = z3.Store(harr(p, '$dqt'), self_v.t, t - 1)
    out.append(Res(p, r))
    return out


def h_deque_clear(eng, p, fc, node, self_v, args, kwargs):
    from .engine import Res
    eng.deque_len(p, self_v)
    p.heap['$dqh'] = z3.Store(harr(p, '$dqh'), self_v.t, z3.Select(harr(p, '$dqt'), self_v.t))
    return [Res(p, VNone())]


def h_dict_pop(eng, p, fc, node, self_v, args, kwargs):
    """d.pop(k[, default]): the value and the key removed, KeyError / default when absent"""
    from .engine import Res
    eng.policy_key(p, self_v, args[0], node)
    k = eng.key_term(args[0])
    eng.dict_facts(p, self_v.t, k)
    dom = z3.Select(harr(p, '$dom'), self_v.t, k)
    out = []
    if feasible(p, z3.Not(dom)):
        q = p.fork()
        q.assume(z3.Not(dom))
        if len(args) > 1:
            out.append(Res(q, args[1]))
        else:
            out.append(eng.raise_(q, 'KeyError', eng.src(node)))
    if feasible(p, dom):
        p.assume(dom)
        r = VRef(z3.Select(harr(p, '$val'), self_v.t, k))
        eng.wf_value(p, r)
        p.heap['$card'] = z3.Store(harr(p, '$card'), self_v.t, z3.Select(harr(p, '$card'), self_v.t) - 1)
        p.heap['$dom'] = z3.Store(harr(p, '$dom'), self_v.t, k, z3.BoolVal(False))
        out.append(Res(p, r))
    return out


# ---- bytes / list methods (value semantics; write-back is done by the engine)
def h_decode(eng, p, fc, node, self_v, args, kwargs):
    from .engine import Res
    b = self_v.t
    ok = eng.strings.valid(b)
    s = eng.strings.dec_of(p, b)
    out = []
    if feasible(p, z3.Not(ok)):
        q = p.fork()
        q.assume(z3.Not(ok))
        q.trace.append('invalid utf-8: %s' % eng.src(node))
        out.append(eng.raise_(q, 'UnicodeDecodeError', eng.src(node)))
    p.assume(ok)
    out.append(Res(p, VStr(s)))
    return out


def h_user_callback(eng, fnval, p, fc, node, args):
    from .engine import Res
    out = []
    for (q, vs) in resolve_all(eng, p, args):
        log_callback(q, fnval, vs)
        out.append(Res(q, VNone()))
    return out


HANDLERS = {
    'len': h_len, 'int': h_int, 'bytearray': h_bytearray, 'bytes': h_bytes, 'str': h_str, 'type': h_type,
    'min': h_minmax('min'), 'max': h_minmax('max'), 'range': h_range, 'list': h_list,
    'isinstance': h_isinstance, 'log': h_log, 'Logger': h_noop_obj, 'random.random': h_random,
    'defer.Deferred': h_Deferred, 'defer.succeed': h_succeed, 'defer.fail': h_fail,
    'Deferred.callback': fire(True), 'Deferred.errback': fire(False),
    'Deferred.addCallback': h_addcb, 'Deferred.addErrback': h_addcb, 'Deferred.addCallbacks': h_addcb,
    'Deferred.addBoth': h_addcb,
    'callLater': h_callLater, 'DelayedCall.cancel': h_cancel, 'DelayedCall.active': h_active,
    'task.LoopingCall': h_LoopingCall, 'LoopingCall.start': h_lc_start, 'LoopingCall.stop': h_lc_stop,
    'Transport.write': h_write, 'Transport.abortConnection': counter('tr_aborts'),
    'Transport.loseConnection': counter('tr_closes'),
    'dict': h_dict_new, 'deque': h_deque_new, 'dict.get': h_dict_get, 'dict.items': h_dict_items, 'dict.values': h_dict_values, 'dict.keys': h_dict_keys,
    'deque.append': h_deque_append, 'deque.popleft': h_deque_popleft, 'deque.appendleft': h_deque_appendleft,
    'deque.pop': h_deque_pop, 'deque.clear': h_deque_clear, 'dict.pop': h_dict_pop,
    'VBytes.decode': h_decode,
}
