"""Symbolic values, sorts and kinds of the pyvc engine."""
import z3

I = z3.IntSort()
B = z3.BoolSort()
Rl = z3.RealSort()
BytesS = z3.SeqSort(I)
StrS = z3.DeclareSort('Str')

PairSI = z3.Datatype('PairSI')
PairSI.declare('mk_si', ('si_s', StrS), ('si_i', I))
PairSI = PairSI.create()
PairIB = z3.Datatype('PairIB')
PairIB.declare('mk_ib', ('ib_i', I), ('ib_b', B))
PairIB = PairIB.create()

# ---- kinds (tags of the union storage every heap field uses) -------------------------------------
KINDS = ['unset', 'none', 'int', 'bool', 'real', 'str', 'bytes', 'ref', 'ver', 'pair_si',
         'list_int', 'list_str', 'list_ref', 'list_si', 'list_ib', 'exc', 'func', 'obj', 'pair_ib', 'list_bytes']
KCODE = {k: i for i, k in enumerate(KINDS)}
KSORT = {
    'int': I, 'bool': B, 'real': Rl, 'str': StrS, 'bytes': BytesS, 'ref': I, 'ver': I,
    'pair_si': PairSI, 'pair_ib': PairIB,
    'list_int': z3.SeqSort(I), 'list_str': z3.SeqSort(StrS), 'list_ref': z3.SeqSort(I),
    'list_si': z3.SeqSort(PairSI), 'list_ib': z3.SeqSort(PairIB),
    'exc': I, 'func': I, 'obj': I, 'list_bytes': z3.SeqSort(BytesS),
}
ELEM_OF = {'list_int': 'int', 'list_str': 'str', 'list_ref': 'ref', 'list_si': 'pair_si', 'list_ib': 'pair_ib', 'list_bytes': 'bytes'}
LIST_OF = {v: k for k, v in ELEM_OF.items()}


Val = z3.Datatype('Val')
Val.declare('v_unset')
Val.declare('v_none')
for _k in KINDS[2:]:
    Val.declare('v_' + _k, ('of_' + _k, KSORT[_k]))
Val = Val.create()


def val_is(t, k):
    return getattr(Val, 'is_v_' + k)(t)


def val_get(t, k):
    return getattr(Val, 'of_' + k)(t)


def val_mk(k, term=None):
    if k in ('unset', 'none'):
        return getattr(Val, 'v_' + k)
    return getattr(Val, 'v_' + k)(term)

CbCall = z3.Datatype('CbCall')
CbCall.declare('mk_cb', ('cb_fn', Val), ('cb_n', I), ('cb_a0', Val), ('cb_a1', Val), ('cb_a2', Val),
               ('cb_a3', Val), ('cb_a4', Val), ('cb_a5', Val))
CbCall = CbCall.create()

VER_V31, VER_V311 = 1, 2   # any other integer: "some other object"


class V:
    kind = None

    def __repr__(self):
        return '%s(%s)' % (type(self).__name__, getattr(self, 't', ''))


class VInt(V):
    kind = 'int'

    def __init__(self, t):
        self.t = z3.IntVal(t) if isinstance(t, int) else t


class VBool(V):
    kind = 'bool'

    def __init__(self, t):
        self.t = z3.BoolVal(t) if isinstance(t, bool) else t


class VReal(V):
    kind = 'real'

    def __init__(self, t):
        self.t = z3.RealVal(t) if isinstance(t, (int, float)) else t


class VBytes(V):
    kind = 'bytes'

    def __init__(self, t, code=True):
        self.t = t
        self.code = code     # produced by code (elements are bytes by CPython's construction) vs spec term


class VStr(V):
    kind = 'str'

    def __init__(self, t, const=None):
        self.t = t
        self.const = const


class VNone(V):
    kind = 'none'


class VRef(V):
    kind = 'ref'

    def __init__(self, t, cls=None):
        self.t = z3.IntVal(t) if isinstance(t, int) else t
        self.cls = cls


class VVer(V):
    kind = 'ver'

    def __init__(self, t):
        self.t = z3.IntVal(t) if isinstance(t, int) else t


class VObj(V):
    """opaque object identity (addresses, Failure reasons, user callables...)"""
    kind = 'obj'

    def __init__(self, t):
        self.t = t


class VExcVal(V):
    """an exception instance held as a value (errback reasons, Deferred results): class code only"""
    kind = 'exc'

    def __init__(self, t):
        self.t = t


class VTuple(V):
    kind = 'tuple'

    def __init__(self, items):
        self.items = list(items)

    def __repr__(self):
        return 'VTuple(%r)' % (self.items,)


class VList(V):
    def __init__(self, t, ek):
        self.t = t
        self.ek = ek            # element kind

    @property
    def kind(self):
        return LIST_OF[self.ek]


class VUnion(V):
    """A value of statically unknown kind: a term of the universal datatype Val (what heap fields hold)."""
    kind = 'union'

    def __init__(self, t, desc=''):
        self.t = t
        self.desc = desc

    def is_(self, k):
        return val_is(self.t, k)

    def get(self, k):
        return val_get(self.t, k)

    def __repr__(self):
        return 'VUnion(%s)' % self.desc


class VFunc(V):
    """fk: 'method' (repo method bound to self), 'function' (repo function), 'closure', 'builtin', 'cb'"""
    kind = 'func'

    def __init__(self, fk, name, self_v=None, node=None, env=None, module=None, cls=None, t=None):
        self.fk = fk
        self.name = name
        self.self_v = self_v
        self.node = node
        self.env = env
        self.module = module
        self.cls = cls
        self.t = t

    def __repr__(self):
        return 'VFunc(%s %s)' % (self.fk, self.name)


class VClass(V):
    kind = 'class'

    def __init__(self, name, repo_cls=None, exc=False):
        self.name = name
        self.repo_cls = repo_cls
        self.exc = exc

    def __repr__(self):
        return 'VClass(%s)' % self.name


class VExt(V):
    kind = 'ext'

    def __init__(self, name):
        self.name = name

    def __repr__(self):
        return 'VExt(%s)' % self.name


class VConstDict(V):
    kind = 'constdict'

    def __init__(self, d):
        self.d = d


class VConstList(V):
    kind = 'constlist'

    def __init__(self, items):
        self.items = items


class VExc(V):
    """exception instance: class is concrete per path"""
    kind = 'exc'

    def __init__(self, cls, args=(), origin=''):
        self.cls = cls
        self.args = list(args)
        self.origin = origin

    def __repr__(self):
        return 'VExc(%s @%s)' % (self.cls, self.origin)


class VOpaque(V):
    """value whose content is irrelevant (formatted log strings, type objects...)"""
    kind = 'opaque'

    def __init__(self, what=''):
        self.what = what


class VPair(V):
    """element of list_si / list_ib read back as a datatype term"""
    def __init__(self, t, pk):
        self.t = t
        self.pk = pk

    @property
    def kind(self):
        return self.pk


class Unsupported(Exception):
    pass


# ---- exception class hierarchy (builtins + twisted; repo classes are added by the engine) -----------
EXC_BASES = {
    'BaseException': None, 'Exception': 'BaseException',
    'ArithmeticError': 'Exception', 'ZeroDivisionError': 'ArithmeticError', 'OverflowError': 'ArithmeticError',
    'LookupError': 'Exception', 'IndexError': 'LookupError', 'KeyError': 'LookupError',
    'ValueError': 'Exception', 'UnicodeError': 'ValueError', 'UnicodeEncodeError': 'UnicodeError',
    'UnicodeDecodeError': 'UnicodeError',
    'TypeError': 'Exception', 'AttributeError': 'Exception', 'NameError': 'Exception',
    'UnboundLocalError': 'NameError', 'RuntimeError': 'Exception', 'AssertionError': 'Exception',
    'AlreadyCalledError': 'Exception',            # twisted.internet.defer
    'AlreadyCalled': 'ValueError', 'AlreadyCancelled': 'ValueError',   # twisted.internet.error
}
