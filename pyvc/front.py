"""Front end: parse the real repository sources on every run, build module / class tables.

Nothing is copied or re-typed: every function body the engine executes symbolically is the ast of the
file found under <repo>/src/mqtt at the time of the run.  What is dropped is listed in DROPPED.
"""
import ast, hashlib, os

MODULES = {
    'mqtt': 'src/mqtt/__init__.py',
    'mqtt.pdu': 'src/mqtt/pdu.py',
    'mqtt.error': 'src/mqtt/error.py',
    'mqtt.client.base': 'src/mqtt/client/base.py',
    'mqtt.client.pubsubs': 'src/mqtt/client/pubsubs.py',
    'mqtt.client.publisher': 'src/mqtt/client/publisher.py',
    'mqtt.client.subscriber': 'src/mqtt/client/subscriber.py',
    'mqtt.client.factory': 'src/mqtt/client/factory.py',
    'mqtt.client.interval': 'src/mqtt/client/interval.py',
}

DROPPED = [
    "comments and docstrings (a bare string expression statement is a no-op)",
    "__all__ assignments and `log = Logger(...)` (log.* calls: library contract 'no effect, never raises')",
    "@implementer(...) class decorators (zope interface declaration, no behaviour)",
    "PY2 evaluated to False (sys.version_info[0]==2 is false under the Python 3 running the suite)",
]


class ClassInfo:
    def __init__(self, qname, node, module):
        self.qname = qname
        self.node = node
        self.module = module
        self.bases = []          # qualified names (repo) or external names
        self.methods = {}        # name -> FunctionDef
        self.attrs = {}          # class attributes: name -> ast expr

    def __repr__(self):
        return '<class %s>' % self.qname


class ModuleInfo:
    def __init__(self, name, path, tree, src):
        self.name = name
        self.path = path
        self.tree = tree
        self.src = src
        self.functions = {}      # name -> FunctionDef
        self.classes = {}        # name -> ClassInfo
        self.globals = {}        # name -> ast expr (simple assignments)
        self.imports = {}        # local name -> qualified name 'pkg.mod:attr' or 'ext:twisted....'


class Repo:
    def __init__(self, root='/repo'):
        self.root = root
        self.modules = {}
        for name, rel in MODULES.items():
            p = os.path.join(root, rel)
            src = open(p, encoding='utf-8').read()
            tree = ast.parse(src, filename=p)
            self.modules[name] = self._index(name, p, tree, src)
        self.classes = {}
        for m in self.modules.values():
            for c in m.classes.values():
                self.classes[c.qname] = c
        for c in self.classes.values():
            self._resolve_bases(c)

    # ------------------------------------------------------------------
    def _index(self, name, path, tree, src):
        m = ModuleInfo(name, path, tree, src)
        is_pkg = path.endswith('__init__.py')
        for node in tree.body:
            if isinstance(node, ast.FunctionDef):
                m.functions[node.name] = node
            elif isinstance(node, ast.ClassDef):
                ci = ClassInfo(name + '.' + node.name, node, m)
                for sub in node.body:
                    if isinstance(sub, ast.FunctionDef):
                        ci.methods[sub.name] = sub
                    elif isinstance(sub, ast.Assign) and len(sub.targets) == 1 and isinstance(sub.targets[0], ast.Name):
                        ci.attrs[sub.targets[0].id] = sub.value
                m.classes[node.name] = ci
            elif isinstance(node, ast.Assign) and len(node.targets) == 1 and isinstance(node.targets[0], ast.Name):
                m.globals[node.targets[0].id] = node.value
            elif isinstance(node, ast.ImportFrom):
                base = name.split('.')
                if node.level:
                    # relative import: package of this module
                    pkg = base if is_pkg else base[:-1]
                    pkg = pkg[:len(pkg) - (node.level - 1)]
                    target = '.'.join(pkg + ([node.module] if node.module else []))
                else:
                    target = node.module
                for a in node.names:
                    m.imports[a.asname or a.name] = (target, a.name)
            elif isinstance(node, ast.Import):
                for a in node.names:
                    m.imports[a.asname or a.name] = (a.name, None)
        return m

    def _resolve_bases(self, c):
        for b in c.node.bases:
            if isinstance(b, ast.Name):
                q = self.resolve_name(c.module, b.id)
                c.bases.append(q if q else 'ext:' + b.id)
            else:
                c.bases.append('ext:' + ast.unparse(b))

    # ------------------------------------------------------------------
    def resolve_name(self, module, name):
        """Resolve a global name of `module` to a qualified repo entity name, or None."""
        if name in module.classes:
            return module.classes[name].qname
        if name in module.functions:
            return module.name + '.' + name
        if name in module.globals:
            return module.name + '.' + name
        if name in module.imports:
            target, attr = module.imports[name]
            if attr is None:
                return 'ext:' + target
            if target in self.modules:
                tm = self.modules[target]
                r = self.resolve_name(tm, attr)
                if r:
                    return r
                return None
            # `from . import PY2` where target is package and attr a submodule?
            if target + '.' + attr in self.modules:
                return 'mod:' + target + '.' + attr
            return 'ext:' + target + '.' + attr
        return None

    def mro(self, qname):
        """Linearisation for single inheritance inside the repo (external bases terminate)."""
        out = []
        cur = qname
        while cur in self.classes:
            out.append(cur)
            bs = [b for b in self.classes[cur].bases]
            if not bs:
                break
            cur = bs[0]
        return out

    def find_method(self, qname, meth):
        for c in self.mro(qname):
            ci = self.classes[c]
            if meth in ci.methods:
                return ci, ci.methods[meth]
        return None, None

    def find_class_attr(self, qname, attr):
        for c in self.mro(qname):
            ci = self.classes[c]
            if attr in ci.attrs:
                return ci, ci.attrs[attr]
        return None, None

    def is_subclass(self, qname, base):
        return base in self.mro(qname)

    def function(self, qname):
        """qname: 'mqtt.pdu.encodeString' | 'mqtt.pdu.PUBLISH.encode' | '...doConnect.connectError'.
        Returns (module, classinfo|None, FunctionDef, outer FunctionDef|None)."""
        parts = qname.split('.')
        for i in range(len(parts) - 1, 0, -1):
            mname = '.'.join(parts[:i])
            if mname in self.modules:
                m = self.modules[mname]
                rest = parts[i:]
                if len(rest) == 1 and rest[0] in m.functions:
                    return m, None, m.functions[rest[0]], None
                if rest[0] in m.classes:
                    ci = m.classes[rest[0]]
                    if len(rest) == 2 and rest[1] in ci.methods:
                        return m, ci, ci.methods[rest[1]], None
                    if len(rest) == 3 and rest[1] in ci.methods:
                        outer = ci.methods[rest[1]]
                        for sub in outer.body:
                            if isinstance(sub, ast.FunctionDef) and sub.name == rest[2]:
                                return m, ci, sub, outer
                return None
        return None

    def source_hash(self, fnode):
        return hashlib.sha256(ast.dump(fnode).encode()).hexdigest()[:16]


def assigned_names(nodes):
    """Names assigned anywhere in a list of statements (for loop havoc / locals detection)."""
    out = set()
    for n in nodes:
        for sub in ast.walk(n):
            if isinstance(sub, ast.Name) and isinstance(sub.ctx, (ast.Store, ast.Del)):
                out.add(sub.id)
            elif isinstance(sub, ast.ExceptHandler) and sub.name:
                out.add(sub.name)
            elif isinstance(sub, ast.FunctionDef):
                out.add(sub.name)
    return out


def local_names(fnode):
    """Python's rule: a name is local if it is a parameter or bound anywhere in the function body
    (nested function / lambda / class / comprehension scopes excluded)."""
    out = set(a.arg for a in fnode.args.args + fnode.args.kwonlyargs)
    if fnode.args.vararg:
        out.add(fnode.args.vararg.arg)
    if fnode.args.kwarg:
        out.add(fnode.args.kwarg.arg)

    def walk(n):
        if isinstance(n, ast.FunctionDef):
            out.add(n.name)
            return
        if isinstance(n, (ast.Lambda, ast.ClassDef, ast.ListComp, ast.GeneratorExp, ast.SetComp, ast.DictComp)):
            return
        if isinstance(n, ast.Name) and isinstance(n.ctx, (ast.Store, ast.Del)):
            out.add(n.id)
        if isinstance(n, ast.ExceptHandler) and n.name:
            out.add(n.name)
        for sub in ast.iter_child_nodes(n):
            walk(sub)
    for st in fnode.body:
        walk(st)
    return out
