"""Per-property check: python3-vt -m pyvc.check <Cxx> [--tier quick|thorough] [--repo PATH]

Exit codes: 0 held (every obligation generated from the current source discharged) · 1 VIOLATION (an
obligation failed; counter-model replayed against the real code where one exists) · 2 undecided ·
3 checker error / vacuity.
"""
import sys, os, json, time, hashlib, subprocess, re
from . import run as R
from . import lib

VERIF = os.path.dirname(os.path.dirname(os.path.abspath(__file__)))
ALL_PROPS = ['C%02d' % i for i in range(1, 21)]


def select_units(specs, units, pid):
    """units serving a property: its contracts, plus every lemma / spec-termination unit they can lean on, plus - when
    one of its contracts assumes the representation invariant of a protocol - the base case of that invariant
    (specs: INVARIANT_BASE = {'class prefix of the targets that assume it': [contracts establishing it]})"""
    sel = []
    for u in units:
        kind = u[0]
        props = R.unit_props(specs, u)
        if kind == 'contract':
            if pid in props:
                sel.append(u)
        else:
            if not props or pid in props:
                sel.append(u)
    base = specs.consts.get('INVARIANT_BASE', (None, None))[1] or {}
    have = set(R.unit_label(u) for u in sel)
    for prefix, keys in base.items():
        if any(u[0] == 'contract' and u[1].startswith(prefix) for u in sel):
            for u in units:
                if u[0] == 'contract' and u[1] in keys and R.unit_label(u) not in have:
                    have.add(R.unit_label(u))
                    sel.append(u)
    return sel


def policy_units(repo, specs, units, pid, sel):
    """contract units that serve pid only through the access-policy obligations the engine generates in every method
    of the policy class (specs: ACCESS_POLICY['props']); of these units only the obligations of kind 'policy' count"""
    conf = specs.consts.get('ACCESS_POLICY', (None, None))[1]
    if not conf or pid not in conf.get('props', []):
        return []
    have = set(R.unit_label(u) for u in sel)
    out = []
    for u in units:
        if u[0] != 'contract' or R.unit_label(u) in have:
            continue
        found = repo.function(u[1].split('#')[0])
        if found is None or found[1] is None:
            continue
        if conf['class'] in repo.mro(found[1].qname):
            out.append(u)
    return out


def restrict_to_policy(res, labels):
    """keep only the policy obligations (and the vacuity canaries) of the units in `labels`; units without any are dropped"""
    out = []
    for r in res:
        if r['label'] in labels:
            if r['status'] == 'ok':
                obls = [o for o in r['obligations'] if o['kind'] in ('policy', 'canary')]
                if not any(o['kind'] == 'policy' for o in obls):
                    continue
                r = dict(r, obligations=obls)
        out.append(r)
    return out


def close_over_callees(repo, specs, units, sel, run):
    """A property is decided by its own contracts AND by every contract those lean on at a call site (modular
    verification: a caller is checked against the callee's contract, so the callee's contract has to be discharged
    too).  `run(list of units) -> results`; returns (selected units, results) closed under `callee contracts used`."""
    by_key = {}
    for u in units:
        if u[0] == 'contract':
            by_key.setdefault(u[1], []).append(u)
    sel = list(sel)
    have = set(R.unit_label(u) for u in sel)
    results = {}
    todo = list(sel)
    while todo:
        for r in run(todo):
            results[r['label']] = r
        nxt = []
        for u in todo:
            r = results[R.unit_label(u)]
            for key in (r.get('used_contracts') or []):
                for cu in by_key.get(key, []):
                    lab = R.unit_label(cu)
                    if lab not in have:
                        have.add(lab)
                        sel.append(cu)
                        nxt.append(cu)
        todo = nxt
    return sel, [results[R.unit_label(u)] for u in sel]


def conformance(pid, res, repo_root, jobs=16):
    """Thorough tier: CPython cross-check of the engine.  Every unit the verifier has fully discharged and that can be
    executed natively (pure codec functions and PDU methods) is run on random / boundary inputs satisfying its
    `requires`, and its `raises` / `ensures` clauses are evaluated natively on the real function's outcome.  A failing
    input for a contract the engine has PROVED means that the engine (or the native evaluator of the sidecar language)
    misrepresents Python: a checker error, never a verdict about the repository.  Returns (samples, errors)."""
    import subprocess, tempfile
    from concurrent.futures import ThreadPoolExecutor
    todo = [r for r in res if r.get('battery') and r['status'] == 'ok'
            and all(o['result'] == 'proved' for o in r['obligations'] if o['kind'] != 'canary')]
    d = tempfile.mkdtemp(prefix='pyvc_conf_', dir='/tmp')

    def one(r):
        path = os.path.join(d, hashlib.sha1(r['label'].encode()).hexdigest()[:12] + '.json')
        doc = {'property': pid, 'unit': r['label'], 'obligation': '(all, cross-check)', 'key': r['label'], 'result': 'proved', 'concrete': None,
               'repo_root': repo_root, 'unit_spec': r.get('unit'), 'battery': dict(r['battery'], samples=150)}
        json.dump(doc, open(path, 'w'))
        try:
            out = subprocess.run(['/venv/bin/python', '-m', 'pyvc.replay', path, '--battery'], cwd=VERIF, capture_output=True, text=True,
                                 timeout=600, env=dict(os.environ, PYTHONPATH=VERIF))
        except Exception as e:
            return r['label'], 2, 0, repr(e)[:200]
        m = re.search(r'among (\d+) valid samples', out.stdout)
        return r['label'], out.returncode, int(m.group(1)) if m else 0, out.stdout.strip()[-300:]
    samples, errors = 0, []
    try:
        with ThreadPoolExecutor(max_workers=jobs) as ex:
            for (label, rc, n, tail) in ex.map(one, todo):
                samples += n
                if rc == 1:
                    errors.append((label, 'the verifier proved this contract but a native run violates it: ' + tail))
    finally:
        import shutil
        shutil.rmtree(d, ignore_errors=True)
    return samples, len(todo), errors


def load_known(path=None):
    path = path or os.path.join(VERIF, 'known_findings.json')
    if not os.path.exists(path):
        return {'open': [], 'fixed': []}
    return json.load(open(path))


def load_ledger():
    path = os.path.join(VERIF, 'ledger.json')
    if not os.path.exists(path):
        return {}
    return json.load(open(path))


def witness_reproduces(f, repo_root):
    w = f.get('witness')
    if not w:
        return True
    try:
        out = subprocess.run(['/venv/bin/python', os.path.join(VERIF, w)], capture_output=True, text=True, timeout=120,
                             env=dict(os.environ, PYTHONPATH=os.path.join(repo_root, 'src')))
        return out.returncode == 1
    except Exception:
        return True


def known_unit(res, key):
    label = key.split(' :: ')[0]
    for r in res:
        if r['label'] == label:
            return r
    return res[0]


def obligation_key(r, o):
    return r['label'] + ' :: ' + o['name']


def finding_matches(f, key):
    return bool(f.get('obligation')) and re.search(f['obligation'], key) is not None


def main(argv):
    pid = None
    tier = os.environ.get('VERIF_TIER', 'quick')
    repo_root = '/repo'
    make_ledger = False
    no_evidence = False
    jobs = 16
    for a in argv:
        if a.startswith('--tier='):
            tier = a[7:]
        elif a == '--tier':
            pass
        elif a in ('quick', 'thorough'):
            tier = a
        elif a.startswith('--repo='):
            repo_root = a[7:]
        elif a == '--no-evidence':
            no_evidence = True
        elif a == '--make-ledger':
            make_ledger = True
        elif a.startswith('-j'):
            jobs = int(a[2:])
        elif re.match(r'^C\d\d$', a):
            pid = a
    seed = int(os.environ.get('VERIF_SEED', '0') or 0)
    if make_ledger:
        return do_ledger(repo_root, jobs)
    if pid is None:
        print('usage: pyvc.check Cxx [--tier quick|thorough]')
        return 3
    t0 = time.time()
    timeout_ms = 10000 if tier == 'quick' else 60000
    try:
        repo, specs = R.load(repo_root)
    except Exception as e:
        print('checker error: cannot load sources/specs: %r' % (e,))
        return 3
    units = R.list_units(specs)
    sel = select_units(specs, units, pid)
    contract_units = [u for u in sel if u[0] == 'contract']
    if not contract_units:
        print('checker error: no contract serves %s' % pid)
        return 3
    pol = policy_units(repo, specs, units, pid, sel)
    counts = [0]

    def run(us):
        rs, nc = run_cached(repo, specs, us, jobs, timeout_ms, repo_root, tier)
        counts[0] += nc
        return rs
    sel, res = close_over_callees(repo, specs, units, sel, run)
    have = set(R.unit_label(u) for u in sel)
    pol = [u for u in pol if R.unit_label(u) not in have]
    res = res + restrict_to_policy(run(pol), set(R.unit_label(u) for u in pol))
    ncached = counts[0]
    known = load_known()
    ledger = load_ledger().get(pid)
    shared_changed = (load_ledger().get('$shared') not in (None, shared_sources_digest(repo, specs)))
    code, report = evaluate(pid, res, known, ledger, repo_root, tier, shared_changed)
    if tier == 'thorough':
        n, units_x, errs = conformance(pid, res, repo_root, jobs)
        report['conformance'] = {'units_cross_checked_natively': units_x, 'valid_samples': n, 'disagreements': len(errs)}
        for (label, what) in errs:
            report['lines'].append('CHECKER-ERROR %s: %s' % (label, what[:400]))
        if errs and code == 0:
            code = 3
    if not no_evidence:
        report['units_from_cache'] = ncached
        write_evidence(pid, tier, seed, res, report, time.time() - t0, specs, repo_root)
    for line in report['lines']:
        print(line)
    print('%s: obligations=%d discharged=%d failed=%d undecided=%d known=%d units=%d wall=%.1fs -> exit %d' % (
        pid, report['obligations'], report['discharged'], len(report['failed']), len(report['undecided']),
        len(report['known_hits']), len(res), time.time() - t0, code))
    return code


def shared_sources_digest(repo, specs):
    """hash of the repository code that is not under a call-site contract of its own (constructors, state classes,
    trampolines, module constants): any unit may inline it, so a change there counts as a change of every unit"""
    import ast, copy
    h = hashlib.sha256()
    contracted = set(t for t, cs in specs.contracts.items() if any(c.callsite for c in cs))
    for mname in sorted(repo.modules):
        m = repo.modules[mname]
        tree = copy.deepcopy(m.tree)
        for sub in tree.body:
            if isinstance(sub, ast.FunctionDef) and (mname + '.' + sub.name) in contracted:
                sub.body = [ast.Pass()]
            elif isinstance(sub, ast.ClassDef):
                for meth in sub.body:
                    if isinstance(meth, ast.FunctionDef) and (mname + '.' + sub.name + '.' + meth.name) in contracted:
                        meth.body = [ast.Pass()]
        h.update(mname.encode())
        h.update(ast.dump(tree).encode())
    return h.hexdigest()[:20]


def static_digest(repo, specs, timeout_ms):
    """everything a verification unit may depend on besides the body of its own target function: sidecars, engine,
    solver budget, and the repository sources with the bodies of functions that have a call-site contract blanked
    (those are only ever used through their contract; every other function may be inlined into any unit)"""
    import glob, ast, copy
    h = hashlib.sha256()
    tools = ('mutsweep.py', 'mutcheck.py', 'seeds.py', 'selftest.py', 'replay.py', 'concretize.py', 'check.py')
    for f in sorted(glob.glob(os.path.join(VERIF, 'specs', '*.py')) + glob.glob(os.path.join(VERIF, 'pyvc', '*.py'))):
        if os.path.basename(f) in tools:      # drivers and reporting: they do not take part in generating or solving VCs
            continue
        h.update(os.path.basename(f).encode())
        h.update(open(f, 'rb').read())
    h.update(str(timeout_ms).encode())
    contracted = set(t for t, cs in specs.contracts.items() if any(c.callsite for c in cs))
    for mname in sorted(repo.modules):
        m = repo.modules[mname]
        tree = copy.deepcopy(m.tree)
        for sub in tree.body:
            if isinstance(sub, ast.FunctionDef) and (mname + '.' + sub.name) in contracted:
                sub.body = [ast.Pass()]
            elif isinstance(sub, ast.ClassDef):
                for meth in sub.body:
                    if isinstance(meth, ast.FunctionDef) and (mname + '.' + sub.name + '.' + meth.name) in contracted:
                        meth.body = [ast.Pass()]
        h.update(mname.encode())
        h.update(ast.dump(tree).encode())
    return h.hexdigest()


def unit_key(repo, specs, u, sdig):
    import ast
    h = hashlib.sha256(sdig.encode())
    h.update(R.unit_label(u).encode())
    if u[0] == 'contract':
        found = repo.function(u[1].split('#')[0])
        if found is not None:
            module, ci, fnode, outer = found
            h.update(ast.dump(outer if outer is not None else fnode).encode())
    return h.hexdigest()[:32]


def run_cached(repo, specs, sel, jobs, timeout_ms, repo_root, tier):
    """A unit's result is a function of: the body of its target function, the sidecars, the engine, the solver budget
    and the rest of the repository with contracted bodies blanked (static_digest).  Within one state of all of those a
    unit verified once (for any property) is not verified again; editing a function under contract invalidates exactly
    the units targeting it, editing anything else invalidates everything.  Disabled with PYVC_NO_CACHE=1 and in the
    thorough tier."""
    if os.environ.get('PYVC_NO_CACHE') or tier == 'thorough':
        return R.run_units(repo, specs, sel, jobs, timeout_ms), 0
    d = os.path.join(VERIF, '.pyvc_cache')
    os.makedirs(d, exist_ok=True)
    sdig = static_digest(repo, specs, timeout_ms)
    keys = [unit_key(repo, specs, u, sdig) for u in sel]
    res = [None] * len(sel)
    todo = []
    for i, u in enumerate(sel):
        f = os.path.join(d, keys[i] + '.json')
        if os.path.exists(f):
            try:
                r = json.load(open(f))
                r['unit'] = tuple(tuple(x) if isinstance(x, list) else x for x in r['unit'])
                if r['label'] == R.unit_label(sel[i]) and r['status'] == 'ok' and all(o['result'] == 'proved' or o['kind'] == 'canary' for o in r['obligations']):
                    res[i] = r
                    continue
            except Exception:
                pass
        todo.append(i)
    fresh = R.run_units(repo, specs, [sel[i] for i in todo], jobs, timeout_ms)
    for i, r in zip(todo, fresh):
        res[i] = r
        try:
            json.dump(r, open(os.path.join(d, keys[i] + '.json'), 'w'))
        except Exception:
            pass
    try:      # the cache is bounded: beyond 2000 entries the oldest are dropped
        fs = [os.path.join(d, x) for x in os.listdir(d) if x.endswith('.json')]
        if len(fs) > 2000:
            fs.sort(key=os.path.getmtime)
            for x in fs[:len(fs) - 1500]:
                os.unlink(x)
    except OSError:
        pass
    return res, len(sel) - len(todo)


def evaluate(pid, res, known, ledger, repo_root, tier, shared_changed=False):
    lines = []
    failed, undecided, errors, known_hits = [], [], [], []
    n_obl = n_dis = 0
    seen_keys = set()
    open_findings = [f for f in known.get('open', []) if f['property'] == pid]
    for r in res:
        obls = r['obligations']
        canaries = [o for o in obls if o['kind'] == 'canary']
        real = [o for o in obls if o['kind'] != 'canary']
        if r['status'] == 'unsupported':
            undecided.append((r['label'], 'UNSUPPORTED: ' + r['detail']))
        elif r['status'] == 'timeout':
            undecided.append((r['label'], 'TIMEOUT: ' + r['detail']))
        elif r['status'] == 'crash':
            errors.append((r['label'], r['detail']))
        if r['status'] == 'ok' and not real:
            errors.append((r['label'], 'unit generated zero obligations'))
        if r['status'] == 'ok' and r['unit'][0] == 'contract' and not canaries and not any(o['kind'] in ('noraise', 'raises-iff') for o in real):
            errors.append((r['label'], 'VACUOUS: no exit path of the function was reached'))
        if canaries and all(o['result'] == 'proved' for o in canaries):
            errors.append((r['label'], 'VACUOUS: the canary `false` was proved on every exit path (contradictory preconditions?)'))
        base = (ledger or {}).get(r['label'])
        # the unit counts as changed when its own function changed, or when code any unit may inline (constructors, state
        # classes, trampolines) changed with respect to the committed baseline
        changed = base is not None and (base.get('hash') != r.get('fn_hash') or shared_changed)
        for o in real:
            key = obligation_key(r, o)
            seen_keys.add(key)
            n_obl += 1
            if o['result'] == 'proved':
                n_dis += 1
                continue
            hit = None
            for f in open_findings:
                if finding_matches(f, key):
                    hit = f
                    break
            if hit is not None:
                known_hits.append((hit, key, o))
                continue
            if o['result'] == 'failed':
                failed.append((r, o, key))
            elif changed and base is not None and (o['name'] in base.get('proved', []) or base.get('complete')):
                # discharged on the unchanged tree, source of the function changed, no longer discharged
                failed.append((r, o, key))
            else:
                undecided.append((key, o['detail'] or o['result']))
    # obligations of the committed baseline ledger that are no longer generated
    missing = []
    if ledger is not None and not any(r['status'] != 'ok' for r in res):
        for label, ent in ledger.items():
            for nm in ent.get('proved', []):
                if label + ' :: ' + nm not in seen_keys:
                    missing.append(label + ' :: ' + nm)
    code = 0
    printed = set()
    for (f, key, o) in known_hits:
        if f['id'] not in printed:
            printed.add(f['id'])
            still = witness_reproduces(f, repo_root)
            if still:
                lines.append('KNOWN-FINDING: property=%s %s' % (pid, f['what']))
            else:
                # the listed witness no longer fails but the obligation does: a different violation
                failed.append((known_unit(res, key), o, key))
    # findings without an obligation of their own (clauses no contract states): printed while their witness reproduces
    for f in open_findings:
        if not f.get('obligation') and f['id'] not in printed:
            printed.add(f['id'])
            if witness_reproduces(f, repo_root):
                lines.append('KNOWN-FINDING: property=%s %s' % (pid, f['what']))
    if failed:
        code = 1
        from . import replay
        by_unit = {}
        for (r, o, key) in failed:
            by_unit.setdefault(r['label'], []).append((r, o, key))
        for label, items in by_unit.items():
            # name the most telling obligation of the unit: one stated in the sidecars before a generated policy obligation
            items = sorted(items, key=lambda it: (it[1]['kind'] == 'policy' and pid != 'C19', it[1]['kind'] == 'precondition'))
            r, o, key = items[0]
            path, reproduced, note = replay.make_replay(pid, r, o, key, repo_root)
            tail = '' if reproduced else ' no-failing-input-found'
            lines.append('VIOLATION property=%s replay=%s obligation="%s"%s' % (pid, path, key, tail))
            if note:
                lines.append('  ' + note)
    if errors:
        for (k, d) in errors:
            lines.append('CHECKER-ERROR %s: %s' % (k, str(d)[:400]))
        if code == 0:
            code = 3
    if undecided or missing:
        for (k, d) in undecided[:20]:
            lines.append('UNDECIDED %s: %s' % (k, str(d)[:300]))
        for k in missing[:20]:
            lines.append('UNDECIDED ledger obligation no longer generated: %s' % k)
        if code == 0:
            code = 2
    return code, {'lines': lines, 'failed': failed, 'undecided': undecided + [(k, 'missing') for k in missing],
                  'errors': errors, 'known_hits': known_hits, 'obligations': n_obl, 'discharged': n_dis}


def write_evidence(pid, tier, seed, res, report, wall, specs, repo_root):
    os.makedirs(os.path.join(VERIF, 'evidence'), exist_ok=True)
    backends = {}
    solver_s = 0.0
    functions = {}
    lemmas = []
    samples = []
    covers = 0
    canaries_refuted = 0
    inlined = set()
    for r in res:
        kind = r['unit'][0]
        if kind == 'contract':
            functions[r['label']] = {'source_sha': r['fn_hash'], 'obligations': sum(1 for o in r['obligations'] if o['kind'] != 'canary'),
                                     'callee_contracts_used': r['used_contracts'], 'inlined_callees': r['inlined']}
            inlined.update(r['inlined'])
        elif kind == 'lemma':
            lemmas.append(r['label'])
        covers += r['covers'] or 0
        for o in r['obligations']:
            if o['kind'] == 'canary':
                if o['result'] != 'proved':
                    canaries_refuted += 1
                continue
            b = o['backend'] if o['result'] == 'proved' else o['result']
            backends[b] = backends.get(b, 0) + 1
            solver_s += o['solver_s']
            if len(samples) < 6 and o['result'] == 'proved' and o['kind'] in ('ensures', 'invariant', 'raises-iff', 'noraise', 'frame'):
                samples.append({'unit': r['label'], 'obligation': o['name'], 'kind': o['kind'], 'backend': o['backend'],
                                'solver_s': o['solver_s'], 'path': o['trace'][-4:]})
    if not samples:
        samples = [{'unit': r['label'], 'status': r['status']} for r in res[:3]]
    ev = {
        'property_id': pid, 'tier': tier, 'seed': seed, 'level': 'proof',
        'coverage': {
            'obligations': report['obligations'] - len(report['known_hits']), 'discharged': report['discharged'],
            'obligations_suppressed_by_open_known_findings': len(report['known_hits']),
            'checker_cmd': 'python3-vt -m pyvc.check %s --tier %s' % (pid, tier),
            'trusted_base': lib.TRUSTED + ['the pyvc VC generator, z3 5.1.0, cvc5 1.0.3'],
            'samples': samples,
            'functions_under_contract': functions, 'lemmas': lemmas,
            'discharged_by_backend': backends, 'solver_s': round(solver_s, 2),
            'vacuity': {'canaries_refuted': canaries_refuted, 'satisfiable_exit_paths': covers,
                        'sidecar_assumption_scan': specs.assumption_scan},
            'inlined_callees': sorted(inlined),
            'units_reused_from_content_keyed_cache': report.get('units_from_cache', 0),
            'undecided': [u[0] for u in report['undecided']][:50],
            'failed': [k for (_, _, k) in report['failed']][:50],
            'known_findings_printed': sorted(set(f['id'] for (f, _, _) in report['known_hits'])),
            'bounded_standins': [],
            'cpython_cross_check': report.get('conformance', 'thorough tier only'),
            'extraction_drops': __import__('pyvc.front', fromlist=['DROPPED']).DROPPED,
            'repo_root': repo_root,
        },
        'assumptions': lib.TRUSTED,
        'wall_s': round(wall, 2),
        'violations': len(report['failed']),
    }
    with open(os.path.join(VERIF, 'evidence', pid + '.json'), 'w') as f:
        json.dump(ev, f, indent=1)


def front_repo_raw(repo_root):
    from . import front
    return front.Repo(repo_root)


def do_ledger(repo_root, jobs):
    repo, specs = R.load(repo_root)
    units = R.list_units(specs)
    res, _ = run_cached(repo, specs, units, jobs, 10000, repo_root, 'quick')
    by_label = {r['label']: r for r in res}
    for r in res:      # what is not discharged is shown (and simply not recorded)
        if r['status'] != 'ok':
            print('NOT-OK', r['label'], r['status'], str(r.get('detail'))[:200])
        for o in r['obligations']:
            if o['kind'] != 'canary' and o['result'] != 'proved':
                print('NOT-PROVED', r['label'], '::', o['name'][:160], '|', o['result'], (o.get('detail') or '')[:80])
    ledger = {}
    for pid in ALL_PROPS:
        sel = select_units(specs, units, pid)
        if not any(u[0] == 'contract' for u in sel):
            continue
        pol = policy_units(repo, specs, units, pid, sel)
        sel, sel_res = close_over_callees(repo, specs, units, sel, lambda us: [by_label[R.unit_label(u)] for u in us])
        have = set(R.unit_label(u) for u in sel)
        pol = [u for u in pol if R.unit_label(u) not in have]
        pol_res = restrict_to_policy([by_label[R.unit_label(u)] for u in pol], set(R.unit_label(u) for u in pol))
        ent = {}
        for r in sel_res + pol_res:
            keys = []
            real = [o for o in r['obligations'] if o['kind'] != 'canary']
            ent[r['label']] = {'hash': r.get('fn_hash'), 'proved': keys,
                               'complete': r['status'] == 'ok' and bool(real) and all(o['result'] == 'proved' for o in real)}
            for o in r['obligations']:
                # only obligations named from the sidecar text (stable under renaming of locals in the code)
                if o['kind'] in ('ensures', 'invariant', 'raises-iff', 'hint', 'variant', 'frame') and o['result'] == 'proved' \
                        and 'raises-only-when' not in o['name']:
                    if o['name'] not in keys:
                        keys.append(o['name'])
        ledger[pid] = ent
    from . import alpha
    ledger['$alpha'] = alpha.baseline(front_repo_raw(repo_root))
    ledger['$shared'] = shared_sources_digest(repo, specs)
    json.dump(ledger, open(os.path.join(VERIF, 'ledger.json'), 'w'), indent=0)
    print('ledger written:', {k: sum(len(e['proved']) for e in v.values()) for k, v in ledger.items() if not k.startswith('$')})
    return 0


if __name__ == '__main__':
    sys.exit(main(sys.argv[1:]))
