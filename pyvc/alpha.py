"""Alpha-normalisation of local variable names against the committed baseline.

Loop invariants and ghost statements in the sidecars have to name the local variables of the function they annotate
(`encoded`, `value`, `packet_remaining`, ...).  Renaming such a local is a harmless edit of the repository; so that it
neither breaks the proofs nor raises an alarm, the front end compares every function with its baseline *shape*:

  shape(f)  = ast.dump of f with every non-parameter local (names bound in f's own scope, `except ... as e` names)
              replaced by its index in order of first occurrence;
  locals(f) = those names in that order.

Both are recorded in ledger.json ("$alpha") when the ledger is made.  When the current function has the same shape as
its baseline but different local names, the names are mapped back positionally (a pure alpha-renaming: the two
functions are the same program); the verifier then sees the baseline names.  Any other difference leaves the function
exactly as it is.  Parameters are never renamed (callers may pass them by keyword, contracts name them).
"""
import ast, copy, hashlib


def own_locals(fnode):
    """non-parameter locals of fnode in order of first occurrence (source order), or None if the function has nested
    scopes that rebind one of them (then nothing is normalised)"""
    params = set(a.arg for a in fnode.args.posonlyargs + fnode.args.args + fnode.args.kwonlyargs)
    if fnode.args.vararg:
        params.add(fnode.args.vararg.arg)
    if fnode.args.kwarg:
        params.add(fnode.args.kwarg.arg)
    bound = []
    declared_global = set()

    def walk(n, top):
        if isinstance(n, (ast.Global, ast.Nonlocal)):
            declared_global.update(n.names)
        if isinstance(n, (ast.FunctionDef, ast.AsyncFunctionDef)) and not top:
            if n.name not in bound:
                bound.append(n.name)
            return
        if isinstance(n, (ast.Lambda, ast.ClassDef, ast.ListComp, ast.GeneratorExp, ast.SetComp, ast.DictComp)) and not top:
            return
        if isinstance(n, ast.Name) and isinstance(n.ctx, (ast.Store, ast.Del)) and n.id not in bound:
            bound.append(n.id)
        if isinstance(n, ast.ExceptHandler) and n.name and n.name not in bound:
            bound.append(n.name)
        for sub in ast.iter_child_nodes(n):
            walk(sub, False)
    for st in fnode.body:
        walk(st, False)
    names = [b for b in bound if b not in params and b not in declared_global]
    # nested scopes must not rebind any of these names (parameters of inner functions / lambdas, comprehension targets)
    inner_bound = set()
    for sub in ast.walk(fnode):
        if sub is fnode:
            continue
        if isinstance(sub, (ast.FunctionDef, ast.AsyncFunctionDef, ast.Lambda)):
            a = sub.args
            for x in a.posonlyargs + a.args + a.kwonlyargs:
                inner_bound.add(x.arg)
            if a.vararg:
                inner_bound.add(a.vararg.arg)
            if a.kwarg:
                inner_bound.add(a.kwarg.arg)
            if not isinstance(sub, ast.Lambda):
                for s2 in ast.walk(sub):
                    if isinstance(s2, ast.Name) and isinstance(s2.ctx, (ast.Store, ast.Del)):
                        inner_bound.add(s2.id)
        if isinstance(sub, ast.comprehension):
            for s2 in ast.walk(sub.target):
                if isinstance(s2, ast.Name):
                    inner_bound.add(s2.id)
    if inner_bound & set(names):
        return None
    return names


class _Rename(ast.NodeTransformer):
    def __init__(self, mapping):
        self.m = mapping

    def visit_Name(self, node):
        if node.id in self.m:
            node.id = self.m[node.id]
        return node

    def visit_ExceptHandler(self, node):
        if node.name in self.m:
            node.name = self.m[node.name]
        self.generic_visit(node)
        return node

    def visit_FunctionDef(self, node):
        if node.name in self.m and getattr(self, '_inside', False):
            node.name = self.m[node.name]
        was = getattr(self, '_inside', False)
        self._inside = True
        self.generic_visit(node)
        self._inside = was
        return node


def shape_of(fnode):
    names = own_locals(fnode)
    if names is None:
        return None, None
    m = {n: '$%d' % i for i, n in enumerate(names)}
    c = _Rename(m).visit(copy.deepcopy(fnode))
    if c.body and isinstance(c.body[0], ast.Expr) and isinstance(c.body[0].value, ast.Constant) and isinstance(c.body[0].value.value, str):
        c.body = c.body[1:] or [ast.Pass()]      # the docstring is not part of the shape
    return hashlib.sha256(ast.dump(c).encode()).hexdigest()[:20], names


def all_functions(repo):
    for mname, m in repo.modules.items():
        for fname, f in m.functions.items():
            yield mname + '.' + fname, f
        for cname, ci in m.classes.items():
            for meth, f in ci.methods.items():
                yield mname + '.' + cname + '.' + meth, f


def baseline(repo):
    out = {}
    for q, f in all_functions(repo):
        sh, names = shape_of(f)
        if sh is not None and names:
            out[q] = {'shape': sh, 'locals': names}
    return out


def normalise(repo, base):
    """rename locals back to their baseline names wherever a function is alpha-equivalent to its baseline; returns the
    list of (function, {current: baseline}) renamings performed"""
    done = []
    if not base:
        return done
    for q, f in all_functions(repo):
        b = base.get(q)
        if b is None:
            continue
        sh, names = shape_of(f)
        if sh is None or names == b['locals'] or sh != b['shape'] or len(names) != len(b['locals']):
            continue
        # two-step renaming through fresh placeholders so that swaps (a->b, b->a) are handled
        m1 = {n: '$%d' % i for i, n in enumerate(names)}
        m2 = {'$%d' % i: n for i, n in enumerate(b['locals'])}
        _Rename(m1).visit(f)
        _Rename(m2).visit(f)
        done.append((q, dict(zip(names, b['locals']))))
    return done
